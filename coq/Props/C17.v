(* C17 - Derivative atoms have a canonical identity: naming and order bookkeeping.
   Property theorems only: each is closed by [exact] of a lemma of Proofs/NamesP.v and followed by
   Print Assumptions.  The model (Model/NamesM.v) follows SymbolicExpr.eval, find_partial_derivatives,
   get_index_*_atom and get_max_*partial_derivatives arm by arm; where the full statement is false of the
   faithful model there is a [_refuted] theorem with a witness (confirmed on the real code by the check) next
   to the version with the minimal explicit guard. *)
From Coq Require Import String List Bool Arith Permutation Lia.
From V Require Import Model.NamesM Proofs.NamesP.
Import ListNotations.
Open Scope string_scope.

(* ---------------------------------------------------------------- naming *)
(* Two chains (of any length, over scalar functions or vector components, physical or logical) get the same
   symbol exactly when component and multi-index coincide.  Guards: the atoms are plain functions / components
   (funatom0), function names do not contain the separator '_' (hygiene) and a chain does not mix physical with
   logical operators (pure).  Names are outcomes ([res]): a symbol name or the exception SymbolicExpr raises. *)
Theorem C17_same_symbol_iff : forall ops1 a1 ops2 a2,
  funatom0 a1 = true -> funatom0 a2 = true ->
  nosep (fname a1) -> nosep (fname a2) -> pure ops1 = true -> pure ops2 = true ->
  (symbolic (Chain ops1 a1) = symbolic (Chain ops2 a2) <-> a1 = a2 /\ multi_index ops1 = multi_index ops2).
Proof. exact same_symbol_iff. Qed.
Print Assumptions C17_same_symbol_iff.

Theorem C17_sym_name_iff : forall ops1 a1 ops2 a2,
  funatom0 a1 = true -> funatom0 a2 = true ->
  nosep (fname a1) -> nosep (fname a2) -> pure ops1 = true -> pure ops2 = true ->
  (chain_name ops1 a1 = chain_name ops2 a2 <-> a1 = a2 /\ multi_index ops1 = multi_index ops2).
Proof. exact sym_name_iff. Qed.
Print Assumptions C17_sym_name_iff.

(* the same under a sharper, pairwise hygiene that admits names like u_h: neither function name is the other one
   followed by '_' and more (ext n m := exists t, n = m ++ "_" ++ t) *)
Theorem C17_sym_name_iff_family : forall ops1 a1 ops2 a2,
  funatom0 a1 = true -> funatom0 a2 = true ->
  ~ ext (fname a1) (fname a2) -> ~ ext (fname a2) (fname a1) -> pure ops1 = true -> pure ops2 = true ->
  (chain_name ops1 a1 = chain_name ops2 a2 <-> a1 = a2 /\ multi_index ops1 = multi_index ops2).
Proof. exact sym_name_iff_family. Qed.
Print Assumptions C17_sym_name_iff_family.

(* ALL atoms a chain can be applied to - functions, components, their restrictions to one side of an interface
   (minus / plus), components M[i] of a mapping: the same symbol exactly when the multi-index and what the symbol
   identifies coincide.  [akey_of] forgets the side of an interface and the mapping a component belongs to (it
   keeps the index and whether the mapping is the plus side of an interface).  Hygiene [hyg]: function names
   without '_' that are not the reserved coordinate names x, y, z; mapping components 0, 1, 2. *)
Theorem C17_sym_name_iff_all_atoms : forall ops1 a1 ops2 a2,
  hyg a1 -> hyg a2 -> pure ops1 = true -> pure ops2 = true ->
  (chain_name ops1 a1 = chain_name ops2 a2 <-> akey_of a1 = akey_of a2 /\ multi_index ops1 = multi_index ops2).
Proof. exact sym_name_iff_ext. Qed.
Print Assumptions C17_sym_name_iff_all_atoms.

Theorem C17_same_symbol_iff_all_atoms : forall ops1 a1 ops2 a2,
  hyg a1 -> hyg a2 -> pure ops1 = true -> pure ops2 = true ->
  (symbolic (Chain ops1 a1) = symbolic (Chain ops2 a2) <->
   akey_of a1 = akey_of a2 /\ multi_index ops1 = multi_index ops2).
Proof. exact same_symbol_iff_ext. Qed.
Print Assumptions C17_same_symbol_iff_all_atoms.

(* a hygienic atom under a pure chain always has a name; a fourth, fifth, ... component of a mapping never *)
Theorem C17_hygienic_chain_is_named : forall ops a,
  hyg a -> pure ops = true -> exists s, chain_name ops a = Ok s.
Proof. exact hyg_chain_named. Qed.
Print Assumptions C17_hygienic_chain_is_named.

Theorem C17_wrong_index_raises : forall ops m i, 3 <= i -> chain_name ops (FMap m i) = Err EValue.
Proof. exact wrong_index_raises. Qed.
Print Assumptions C17_wrong_index_raises.

(* the symbol is the canonical spelling of the identity: base name, component index, sorted code *)
Theorem C17_name_is_canonical : forall ops a,
  pure ops = true -> chain_name ops a = spec_name a (multi_index ops).
Proof. exact chain_name_pure. Qed.
Print Assumptions C17_name_is_canonical.

(* whatever the order of differentiation (no hygiene needed) *)
Theorem C17_order_of_differentiation : forall ops1 ops2 a,
  Permutation ops1 ops2 -> pure ops1 = true -> chain_name ops1 a = chain_name ops2 a.
Proof. exact sym_name_perm. Qed.
Print Assumptions C17_order_of_differentiation.

(* without hygiene: dx(u) and the function literally named u_x *)
Theorem C17_name_collision_refuted :
  exists ops1 a1 ops2 a2, funatom0 a1 = true /\ funatom0 a2 = true /\ pure ops1 = true /\ pure ops2 = true /\
    chain_name ops1 a1 = chain_name ops2 a2 /\ ~ (a1 = a2 /\ multi_index ops1 = multi_index ops2).
Proof. exact name_collision_refuted. Qed.
Print Assumptions C17_name_collision_refuted.

(* without hygiene: the component w[0] and the function named w_0 *)
Theorem C17_component_collision_refuted :
  exists a1 a2, funatom0 a1 = true /\ funatom0 a2 = true /\ a1 <> a2 /\ chain_name [] a1 = chain_name [] a2.
Proof. exact component_collision_refuted. Qed.
Print Assumptions C17_component_collision_refuted.

(* mixed physical-of-logical chains: the outer code is dropped, dx(dx1(u)) and dx1(u) share a symbol ... *)
Theorem C17_mixed_chain_refuted :
  exists ops1 ops2 a, funatom0 a = true /\ nosep (fname a) /\
    chain_name ops1 a = chain_name ops2 a /\ multi_index ops1 <> multi_index ops2.
Proof. exact mixed_chain_refuted. Qed.
Print Assumptions C17_mixed_chain_refuted.

(* ... and the order of differentiation matters for them: dx(dx1(u)) vs dx1(dx(u)) *)
Theorem C17_mixed_order_refuted :
  exists ops1 ops2 a, funatom0 a = true /\ nosep (fname a) /\ Permutation ops1 ops2 /\ chain_name ops1 a <> chain_name ops2 a.
Proof. exact mixed_order_refuted. Qed.
Print Assumptions C17_mixed_order_refuted.

(* what the symbols of the other atoms forget (each witness is confirmed on the real code by the check) *)
(* the side of an interface: minus(u) and plus(u) share every symbol; so do minus(u) and u *)
Theorem C17_interface_side_refuted :
  exists a1 a2, hyg a1 /\ hyg a2 /\ a1 <> a2 /\ forall ops, chain_name ops a1 = chain_name ops a2.
Proof. exact side_collision_refuted. Qed.
Print Assumptions C17_interface_side_refuted.

Theorem C17_interface_side_plain_refuted :
  exists a1 a2, hyg a1 /\ hyg a2 /\ a1 <> a2 /\ chain_name [Dx] a1 = chain_name [Dx] a2.
Proof. exact side_collision_plain_refuted. Qed.
Print Assumptions C17_interface_side_plain_refuted.

(* the mapping: M[0] and N[0] of two different mappings *)
Theorem C17_mapping_name_refuted :
  exists m1 m2 i, m1 <> m2 /\ hyg (FMap m1 i) /\ hyg (FMap m2 i) /\
    forall ops, chain_name ops (FMap m1 i) = chain_name ops (FMap m2 i).
Proof. exact mapping_collision_refuted. Qed.
Print Assumptions C17_mapping_name_refuted.

(* x, y, z are reserved: a function called x (no separator in it) and M[0]; M[0] and the coordinate symbol x *)
Theorem C17_coordinate_name_refuted :
  exists a1 a2, funatom0 a1 = true /\ nosep (fname a1) /\ hyg a2 /\ akey_of a1 <> akey_of a2 /\
    chain_name [] a1 = chain_name [] a2 /\ chain_name [D1] a1 = chain_name [D1] a2.
Proof. exact coordinate_collision_refuted. Qed.
Print Assumptions C17_coordinate_name_refuted.

Theorem C17_coordinate_symbol_refuted :
  symbolic (Chain [] (FMap (MPlain "M" SNone) 0)) = symbolic (Sym "x").
Proof. exact coordinate_symbol_refuted. Qed.
Print Assumptions C17_coordinate_symbol_refuted.

(* geometry atoms (Mapping, SymbolicWeightedVolume, SymbolicDeterminant): the symbol is spelled from the name of
   the mapping; the weighted volume of an interface is the one of its minus side *)
Theorem C17_geometry_names : forall g,
  gatom_name g = match g with
                 | GMap m => map_name m
                 | GWvol m => "wvol_" ++ map_name (map_minus m)
                 | GDet false m => "det_" ++ map_name m
                 | GDet true m => "det_Jacobian(" ++ map_name m ++ ")"
                 end.
Proof. exact geo_name_spec. Qed.
Print Assumptions C17_geometry_names.

Theorem C17_geometry_collision_refuted :
  (exists g1 g2, g1 <> g2 /\ gatom_name g1 = gatom_name g2) /\
  (exists g a, funatom0 a = true /\ symbolic (Geo g) = symbolic (Chain [] a)).
Proof. exact geometry_collision_refuted. Qed.
Print Assumptions C17_geometry_collision_refuted.

(* ---------------------------------------------------------------- SymbolicExpr commutes with + * ^ functions, tuples, matrices *)
(* outcomes: [rmap C (mapM f l)] = C applied to the translated arguments, or the exception of the first argument
   (left to right) that has no translation; [rpow] = Pow with the base translated first *)
Theorem C17_symbolic_add : forall l, symbolic (Add l) = rmap Add (mapM symbolic l).
Proof. exact symbolic_add. Qed.
Print Assumptions C17_symbolic_add.

Theorem C17_symbolic_mul : forall l, symbolic (Mul l) = rmap Mul (mapM symbolic l).
Proof. exact symbolic_mul. Qed.
Print Assumptions C17_symbolic_mul.

Theorem C17_symbolic_pow_partial : forall b x,
  plainb x = true -> symbolic (Pow b x) = rpow (symbolic b) (symbolic x).
Proof. exact symbolic_pow_const. Qed.
Print Assumptions C17_symbolic_pow_partial.

Theorem C17_symbolic_function : forall f l, symbolic (Fn f l) = rmap (Fn f) (mapM symbolic l).
Proof. exact symbolic_fn. Qed.
Print Assumptions C17_symbolic_function.

Theorem C17_symbolic_tuple : forall l,
  symbolic (Tup l) = rmap Tup (mapM symbolic l) /\ symbolic (Seq l) = rmap Tup (mapM symbolic l).
Proof. exact symbolic_tuple. Qed.
Print Assumptions C17_symbolic_tuple.

Theorem C17_symbolic_matrix : forall imm rows,
  symbolic (Mat imm rows) = rmap (Mat imm) (mapM (mapM symbolic) rows).
Proof. exact symbolic_matrix. Qed.
Print Assumptions C17_symbolic_matrix.

(* interface operators and pull-backs are transparent; plain sympy atoms are passed through; geometry atoms
   become the symbol with their name; an object without an arm raises NotImplementedError *)
Theorem C17_symbolic_transparent : forall p f v e ops a,
  symbolic (Side p e) = symbolic e /\ symbolic (PB f v e) = symbolic e /\
  symbolic (Chain ops (FSide p a)) = symbolic (Chain ops a).
Proof. intros. split; [apply symbolic_side|split; [apply symbolic_pullback|apply symbolic_side_atom]]. Qed.
Print Assumptions C17_symbolic_transparent.

Theorem C17_symbolic_atoms :
  (forall s, symbolic (Sym s) = Ok (Sym s)) /\ (forall s, symbolic (IBase s) = Ok (IBase s)) /\
  (forall s, symbolic (IdxS s) = Ok (IdxS s)) /\ symbolic ImI = Ok ImI /\ (forall s, symbolic (Num s) = Ok (Num s)).
Proof. exact symbolic_passthrough. Qed.
Print Assumptions C17_symbolic_atoms.

Theorem C17_symbolic_geometry : forall g b,
  symbolic (Geo g) = Ok (Sym (gatom_name g)) /\ symbolic (Opaque b) = Err ENotImpl.
Proof. intros. split; [apply symbolic_geo|apply symbolic_opaque]. Qed.
Print Assumptions C17_symbolic_geometry.

(* altogether: SymbolicExpr is the homomorphic extension of chain -> symbol, and nothing terminal is left,
   provided no exponent contains a terminal expression *)
Theorem C17_symbolic_is_substitution_partial : forall e,
  exps_plain e = true -> symbolic e = subst chain_name e /\ (forall r, symbolic e = Ok r -> plainb r = true).
Proof. intros e H. split; [exact (symbolic_is_subst e H)|intros r; exact (symbolic_plain e r H)]. Qed.
Print Assumptions C17_symbolic_is_substitution_partial.

(* the exponent is passed through: SymbolicExpr(2**dx(u)) = 2**dx(u)   (the code before 1e5436c) *)
Theorem C17_symbolic_pow_refuted :
  exists b x r, symbolic (Pow b x) <> rpow (symbolic b) (symbolic x) /\ symbolic (Pow b x) = Ok r /\ plainb r = false.
Proof. exact symbolic_pow_refuted. Qed.
Print Assumptions C17_symbolic_pow_refuted.

(* ---------------------------------------------------------------- maximal orders *)
(* never more than the true maximum: every kernel, every query (F = None, a function, a component, a vector) *)
Theorem C17_max_physical_never_more : forall e q t d,
  get_max_phys e q = Some t -> is_phys d = true -> proj_of d t <= true_max d e q.
Proof. exact max_phys_le_true. Qed.
Print Assumptions C17_max_physical_never_more.

Theorem C17_max_logical_never_more : forall e q t d,
  get_max_log e q = Some t -> is_log d = true -> proj_of d t <= true_max d e q.
Proof. exact max_log_le_true. Qed.
Print Assumptions C17_max_logical_never_more.

(* equal to the true maximum over ALL chains of the kernel over functions and components (a chain over a mapping
   component is no derivative of a function; a function restricted to a side of an interface is still that
   function) - on the fragment the traversal enters (Add / Mul / Pow base / Tuple / list), for pure chains over
   unrestricted functions, overall or for one scalar function / component *)
Theorem C17_max_physical_exact_partial : forall e q t d,
  entered e = true -> pure_chains e = true -> unsided_chains e = true -> novec q ->
  get_max_phys e q = Some t -> is_phys d = true -> proj_of d t = true_max d e q.
Proof. exact max_phys_exact. Qed.
Print Assumptions C17_max_physical_exact_partial.

Theorem C17_max_logical_exact_partial : forall e q t d,
  entered e = true -> pure_chains e = true -> unsided_chains e = true -> novec q ->
  get_max_log e q = Some t -> is_log d = true -> proj_of d t = true_max d e q.
Proof. exact max_log_exact. Qed.
Print Assumptions C17_max_logical_exact_partial.

(* on that fragment the traversal returns exactly the chains of the kernel *)
Theorem C17_find_exact_partial : forall e c,
  entered e = true -> (In c (find_pd e) <-> In c (chains_of e)).
Proof. intros e c H. split; [apply find_pd_sub|apply find_pd_complete; exact H]. Qed.
Print Assumptions C17_find_exact_partial.

(* a report is refused (AttributeError) only for a python list / tuple without F *)
Theorem C17_max_refused_iff : forall e q,
  (get_max_phys e q = None <-> q = None /\ is_pyseq e = true) /\
  (get_max_log e q = None <-> q = None /\ is_pyseq e = true).
Proof. exact max_refused_iff. Qed.
Print Assumptions C17_max_refused_iff.

(* what the traversal misses: each guard of the exactness theorem is necessary *)
Theorem C17_max_matrix_refuted :
  exists e, get_max_phys e None = Some (0, 0, 0) /\ true_max Dx e None = 1 /\ pure_chains e = true.
Proof. exact max_matrix_refuted. Qed.
Print Assumptions C17_max_matrix_refuted.

Theorem C17_max_function_refuted :
  exists e, get_max_phys e None = Some (0, 0, 0) /\ true_max Dx e None = 1 /\ pure_chains e = true.
Proof. exact max_function_refuted. Qed.
Print Assumptions C17_max_function_refuted.

Theorem C17_max_exponent_refuted :
  exists e, get_max_phys e None = Some (0, 0, 0) /\ true_max Dx e None = 1 /\ pure_chains e = true.
Proof. exact max_exponent_refuted. Qed.
Print Assumptions C17_max_exponent_refuted.

Theorem C17_max_mixed_refuted :
  exists e, entered e = true /\
    get_max_phys e None = Some (0, 0, 0) /\ true_max Dx e None = 1 /\
    get_max_log e None = Some (0, 0, 0) /\ true_max D1 e None = 1.
Proof. exact max_mixed_refuted. Qed.
Print Assumptions C17_max_mixed_refuted.

Theorem C17_max_vector_query_refuted :
  exists e q, entered e = true /\ pure_chains e = true /\
    get_max_phys e (Some q) = Some (0, 0, 0) /\ true_max Dx e (Some q) = 1.
Proof. exact max_vector_query_refuted. Qed.
Print Assumptions C17_max_vector_query_refuted.

(* chains over a function restricted to one side of an interface are found but not counted, overall and for F = u
   (also by the current code) *)
Theorem C17_max_interface_side_refuted :
  exists e, entered e = true /\ pure_chains e = true /\
    get_max_phys e None = Some (0, 0, 0) /\ get_max_phys e (Some (QAtom u)) = Some (0, 0, 0) /\
    get_max_phys_g true true false e None = Some (0, 0, 0) /\
    true_max Dx e None = 1 /\ true_max Dx e (Some (QAtom u)) = 1.
Proof. exact max_side_refuted. Qed.
Print Assumptions C17_max_interface_side_refuted.

(* ---------------------------------------------------------------- the proposed repairs (flags of the model) *)
(* the flagged functions with all flags false are the functions of the original code (the case files evaluate the
   variant whose flags are read from the source: pe, ea, vq are true since 1e5436c / fa734e5 / d881220, sq is the
   proposed repair fix-sided-atom-orders) *)
Theorem C17_current_code_is_all_flags_false : forall e q,
  symbolic_g false e = symbolic e /\ find_pd_g false e = find_pd e /\
  get_max_phys_g false false false e q = get_max_phys e q /\ get_max_log_g false false false e q = get_max_log e q.
Proof. exact current_code_is_all_flags_false. Qed.
Print Assumptions C17_current_code_is_all_flags_false.

(* with the exponent translated: the homomorphic extension for every kernel, nothing terminal left *)
Theorem C17_repaired_symbolic_is_substitution : forall e,
  symbolic_g true e = subst chain_name e /\ (forall r, symbolic_g true e = Ok r -> plainb r = true).
Proof. intros e. split; [exact (symbolic_g_true_is_subst e)|intros r; exact (symbolic_g_true_plain e r)]. Qed.
Print Assumptions C17_repaired_symbolic_is_substitution.

(* SymbolicExpr returns a result exactly when every object of the kernel has a translation (no object without an
   arm, no fourth component of a mapping); otherwise it raises *)
Theorem C17_symbolic_raises_iff_untranslatable : forall e,
  (exists r, symbolic_g true e = Ok r) <-> translatable e = true.
Proof. exact symbolic_total_iff. Qed.
Print Assumptions C17_symbolic_raises_iff_untranslatable.

(* with every sub-expression entered, VectorFunction queries and interface operators looked through: equal to the
   true maximum for EVERY kernel (matrices, functions, exponents, interface operators) and every query; the
   remaining guard is pure chains *)
Theorem C17_repaired_max_physical_exact : forall e q t d,
  pure_chains e = true -> get_max_phys_g true true true e q = Some t -> is_phys d = true ->
  proj_of d t = true_max d e q.
Proof. exact max_phys_g_exact. Qed.
Print Assumptions C17_repaired_max_physical_exact.

Theorem C17_repaired_max_logical_exact : forall e q t d,
  pure_chains e = true -> get_max_log_g true true true e q = Some t -> is_log d = true ->
  proj_of d t = true_max d e q.
Proof. exact max_log_g_exact. Qed.
Print Assumptions C17_repaired_max_logical_exact.

(* the current code (interface operators not looked through): exact for every kernel without chains over a function
   restricted to a side of an interface *)
Theorem C17_current_max_exact_partial : forall e q t d,
  pure_chains e = true -> unsided_chains e = true ->
  (get_max_phys_g true true false e q = Some t -> is_phys d = true -> proj_of d t = true_max d e q) /\
  (get_max_log_g true true false e q = Some t -> is_log d = true -> proj_of d t = true_max d e q).
Proof. exact max_g_current_exact. Qed.
Print Assumptions C17_current_max_exact_partial.

(* never more than the truth, whichever repairs are applied *)
Theorem C17_any_variant_never_more : forall ea vq sq e q t d,
  (get_max_phys_g ea vq sq e q = Some t -> is_phys d = true -> proj_of d t <= true_max d e q) /\
  (get_max_log_g ea vq sq e q = Some t -> is_log d = true -> proj_of d t <= true_max d e q).
Proof. intros. split; [apply max_phys_g_le_true|apply max_log_g_le_true]. Qed.
Print Assumptions C17_any_variant_never_more.

(* ---------------------------------------------------------------- non-vacuity *)
(* hygienic names and pure chains exist, the identity is visible in the name, and the theorems fire *)
Example C17_nonvacuous_names :
  let w1 := FComp "w" 1 in
  nosep (fname w1) /\ nosep (fname (FScal "phi")) /\
  pure [Dy; Dx; Dz; Dx] = true /\ pure [D3; D1; D3] = true /\
  chain_name [Dy; Dx; Dz; Dx] w1 = Ok "w_1_xxyz" /\ chain_name [Dx; Dx; Dy; Dz] w1 = Ok "w_1_xxyz" /\
  chain_name [D3; D1; D3] (FScal "phi") = Ok "phi_x1x3x3" /\ chain_name [] w1 = Ok "w_1" /\
  chain_name [Dx; Dx; Dy; Dy] w1 <> chain_name [Dy; Dx; Dz; Dx] w1.
Proof. repeat split; try reflexivity. discriminate. Qed.

Example C17_nonvacuous_family :
  ~ ext "u_h" "v_h" /\ ~ ext "v_h" "u_h" /\ ~ nosep "u_h" /\ ext "u_x" "u" /\
  chain_name [Dx] (FScal "u_h") = Ok "u_h_x" /\ chain_name [] (FComp "B_h" 2) = Ok "B_h_2".
Proof.
  repeat split; try (intros [t E]; discriminate E); try discriminate.
  exists "x". reflexivity.
Qed.

(* a kernel of the entered fragment with pure chains: the exactness theorem applies and is not trivial *)
Example C17_nonvacuous_orders :
  let k := Add [Mul [Sym "alpha"; Chain [Dx; Dx] (FScal "u")];
                Pow (Chain [Dy; Dx] (FComp "w" 0)) (Num "2");
                Tup [Chain [D2; D2; D2] (FScal "u")]] in
  entered k = true /\ pure_chains k = true /\ unsided_chains k = true /\ exps_plain k = true /\
  get_max_phys k None = Some (2, 1, 0) /\ get_max_log k None = Some (0, 3, 0) /\
  get_max_phys k (Some (QAtom (FComp "w" 0))) = Some (1, 1, 0) /\
  true_max Dx k None = 2 /\ true_max D2 k (Some (QAtom (FScal "u"))) = 3 /\
  symbolic k = Ok (Add [Mul [Sym "alpha"; Sym "u_xx"]; Pow (Sym "w_0_xy") (Num "2"); Tup [Sym "u_x2x2x2"]]).
Proof. repeat split. Qed.

(* hygienic atoms of every kind exist, their identity is visible in the name, and a typical interface kernel
   (integrand * weighted volume, Jacobian entries, both sides) is translated as stated *)
Example C17_nonvacuous_all_atoms :
  let M := MPlain "M" SMinus in let N := MPlain "N" SPlus in
  let um := FSide false (FScal "u") in
  hyg um /\ hyg (FMap M 0) /\ hyg (FMap N 1) /\ akey_of um = KFun "u" /\ akey_of (FMap N 1) = KCoord 1 true /\
  chain_name [D1; D2] (FMap M 0) = Ok "x_x1x2" /\ chain_name [D2; D1] (FMap N 1) = Ok "y_plus_x1x2" /\
  chain_name [Dx] um = Ok "u_x" /\ chain_name [] (FMap M 3) = Err EValue /\
  let k := Mul [Add [Chain [D1] um; Mul [Num "-1"; Chain [D1] (FSide true (FScal "v"))]];
                Chain [D1] (FMap M 0); Pow (Geo (GDet true (MIface "M" "N"))) (Num "-1"); Geo (GWvol (MIface "M" "N"))] in
  translatable k = true /\ pure_chains k = true /\ unsided_chains k = false /\
  symbolic_g true k = Ok (Mul [Add [Sym "u_x1"; Mul [Num "-1"; Sym "v_x1"]]; Sym "x_x1";
                               Pow (Sym "det_Jacobian(M|N)") (Num "-1"); Sym "wvol_M"]) /\
  get_max_log_g true true true k None = Some (1, 0, 0) /\ get_max_log_g true true false k None = Some (0, 0, 0) /\
  true_max D1 k None = 1 /\
  symbolic_g true (Add [k; Opaque true]) = Err ENotImpl.
Proof. repeat split; try (simpl; lia); try (intros [H|[H|H]]; discriminate). Qed.
