(* C20 - name patterns expand exactly like sympy.symbols and shape the created elements.
   Property theorems only: each is closed by [exact] of a lemma of Proofs/PatternsP.v and
   followed by Print Assumptions.  expand_A models sympde's expand_name_patterns, symbols_B the
   name logic of the installed sympy.symbols (Model/PatternsM.v). *)
From Coq Require Import String Ascii List Bool Arith ZArith.
From V Require Import Model.PatternsM Proofs.PatternsP.
Import ListNotations.
Open Scope string_scope.

(* ---- first sentence: same names, same structure, same error type ----------------------- *)

(* every string, seq not given / True / False: values and error kinds coincide *)
Theorem C20_string_equal : forall s seq,
  seq_in_scope seq -> expand_A (PStr s) seq = symbols_B (PStr s) seq.
Proof. exact string_equal. Qed.
Print Assumptions C20_string_equal.

(* every nesting of lists / tuples / sets of patterns, seq not given *)
Theorem C20_nested_equal_without_seq : forall p, expand_A p SeqAbsent = symbols_B p SeqAbsent.
Proof. exact nested_equal_absent. Qed.
Print Assumptions C20_nested_equal_without_seq.

(* nested input with seq given.  Full statement:
     forall p b, expand_A p (SeqBool b) = symbols_B p (SeqBool b)
   is false of the code (sympde ignores seq below the top level, sympy passes it down): *)
Theorem C20_nested_seq_refuted :
  (exists p, expand_A p (SeqBool true) <> symbols_B p (SeqBool true)) /\
  (exists p, expand_A p (SeqBool false) <> symbols_B p (SeqBool false)).
Proof. exact nested_seq_refuted. Qed.
Print Assumptions C20_nested_seq_refuted.

(* ... and holds under the guard that seq makes no difference for the inner strings *)
Theorem C20_nested_equal_partial : forall p b,
  (forall s, In s (inner_strings p) -> symbols_B (PStr s) (SeqBool b) = symbols_B (PStr s) SeqAbsent) ->
  expand_A p (SeqBool b) = symbols_B p (SeqBool b).
Proof. exact nested_equal_partial. Qed.
Print Assumptions C20_nested_equal_partial.

(* ... and the guard is minimal: whenever both return the same value, it holds *)
Theorem C20_nested_guard_necessary : forall p b o,
  expand_A p (SeqBool b) = Ok o -> symbols_B p (SeqBool b) = Ok o ->
  forall s, In s (inner_strings p) -> symbols_B (PStr s) (SeqBool b) = symbols_B (PStr s) SeqAbsent.
Proof. exact nested_guard_necessary. Qed.
Print Assumptions C20_nested_guard_necessary.

(* the hand-written scanner is the regular expression ([0-9]*:[0-9]+|[a-zA-Z]?:[a-zA-Z]) under
   a backtracking semantics (alternatives in order, greedy repetition), and so is the split *)
Theorem C20_scanner_is_the_regex : forall s, match_range s = re_match range_re s.
Proof. exact match_range_correct. Qed.
Print Assumptions C20_scanner_is_the_regex.

Theorem C20_split_is_re_split : forall s, range_split s = re_split (re_match range_re) s.
Proof. exact range_split_is_re_split. Qed.
Print Assumptions C20_split_is_re_split.

(* the building blocks mean what the expansion rules say *)
Theorem C20_space_split_loop : forall names, ws_loop names = flat_map split_ws names.
Proof. exact ws_loop_flat_map. Qed.
Print Assumptions C20_space_split_loop.

Theorem C20_comma_split : forall sep s,
  join sep (split_char sep s) = s /\ Forall (fun p => mem sep p = false) (split_char sep s).
Proof. exact split_char_spec. Qed.
Print Assumptions C20_comma_split.

Theorem C20_space_split : forall s,
  Forall (fun p => p <> [] /\ forallb (fun c => negb (is_space c)) p = true) (split_ws s).
Proof. exact split_ws_pieces. Qed.
Print Assumptions C20_space_split.

Theorem C20_numeric_range_exclusive : forall a b x, In x (zrange a b) <-> (a <= x < b)%Z.
Proof. exact zrange_spec. Qed.
Print Assumptions C20_numeric_range_exclusive.

Theorem C20_product_order : forall l1 l2,
  cartes_join [l1; l2] = flat_map (fun x => map (fun y => (x ++ y)%list) l2) l1.
Proof. exact cartes_join_two. Qed.
Print Assumptions C20_product_order.

Theorem C20_product_size : forall ls,
  length (cartes_join ls) = fold_right (fun l n => length l * n) 1 ls.
Proof. exact cartes_join_length. Qed.
Print Assumptions C20_product_size.

Theorem C20_result_packing : forall res seq,
  pack res seq = match res, seq with
                 | [x], false => name_of x
                 | _, _ => OSeq CTuple (map name_of res)
                 end.
Proof. exact pack_spec. Qed.
Print Assumptions C20_result_packing.

(* ---- second sentence: elements carry exactly those names, in the matching nesting, each in
        the corresponding component space ---------------------------------------------------- *)

(* whenever element_of / elements_of return, the names of the created functions, with their
   nesting and container kinds, are exactly the expanded names, and every function lies in the
   corresponding space ([placed]: the space itself, resp. the i-th component for the i-th entry,
   one entry per component) *)
Theorem C20_element_of_structure : forall sp p names e,
  expand_A p SeqAbsent = Ok names -> element_of sp p = Ok e ->
  names_tree e = names /\ placed sp e.
Proof. exact element_of_structure. Qed.
Print Assumptions C20_element_of_structure.

Theorem C20_elements_of_structure : forall sp p names e,
  expand_A p (SeqBool true) = Ok names -> elements_of sp p = Ok e ->
  names_tree e = names /\ placed sp e.
Proof. exact elements_of_structure. Qed.
Print Assumptions C20_elements_of_structure.

Theorem C20_element_of_no_name_lost : forall sp p names e,
  expand_A p SeqAbsent = Ok names -> element_of sp p = Ok e ->
  map fst (leaves e) = flat_out names.
Proof. exact element_of_names. Qed.
Print Assumptions C20_element_of_no_name_lost.

Theorem C20_elements_of_no_name_lost : forall sp p names e,
  expand_A p (SeqBool true) = Ok names -> elements_of sp p = Ok e ->
  map fst (leaves e) = flat_out names.
Proof. exact elements_of_names. Qed.
Print Assumptions C20_elements_of_no_name_lost.

(* a number of names different from the number of component spaces is refused, never cut *)
Theorem C20_length_mismatch_refused : forall c spaces l,
  length l <> length spaces ->
  rec_element_of (SProduct spaces) (OSeq c l) = Err ValueErr /\
  rec_elements_of (SProduct spaces) (OSeq c l) = Err ValueErr.
Proof. exact length_mismatch_refused. Qed.
Print Assumptions C20_length_mismatch_refused.

(* for the record: the code before the repair f3da127 (zip without a length check) violated the
   statement: element_of(V*W, 'a,b,c') returned (a, b) *)
Theorem C20_element_structure_refuted_before_fix :
  exists sp p names e, expand_A p SeqAbsent = Ok names /\ element_of_before_fix sp p = Ok e /\
                       names_tree e <> names /\ map fst (leaves e) <> flat_out names.
Proof. exact element_structure_refuted_before_fix. Qed.
Print Assumptions C20_element_structure_refuted_before_fix.

(* a product space is flat, and one plain name per component gives literally zip(spaces, names) *)
Theorem C20_product_is_flat : forall l,
  forallb flat_space l = true ->
  flat_space (product_new l) = true /\ comps (product_new l) = flat_map comps l.
Proof. exact product_new_spec. Qed.
Print Assumptions C20_product_is_flat.

Theorem C20_element_of_is_zip : forall c spaces ns,
  forallb is_basic spaces = true -> length ns = length spaces ->
  rec_element_of (SProduct spaces) (OSeq c (map OName ns)) = Ok (ESeq c (map mkfun (combine spaces ns))) /\
  rec_elements_of (SProduct spaces) (OSeq c (map OName ns)) = Ok (ESeq c (map mkfun (combine spaces ns))).
Proof. exact element_of_is_zip. Qed.
Print Assumptions C20_element_of_is_zip.

Theorem C20_element_of_leaves : forall c spaces ns e,
  forallb is_basic spaces = true ->
  rec_element_of (SProduct spaces) (OSeq c (map OName ns)) = Ok e ->
  leaves e = combine ns spaces /\ map fst (leaves e) = ns /\ map snd (leaves e) = spaces.
Proof. exact element_of_leaves. Qed.
Print Assumptions C20_element_of_leaves.

(* ---- non-vacuity: the hypotheses are met by concrete inputs, and the models compute ------ *)
Example C20_ex_scope : seq_in_scope SeqAbsent /\ seq_in_scope (SeqBool true) /\ seq_in_scope (SeqBool false).
Proof. simpl. auto. Qed.

(* the examples of sympde/core/tests/test_utils.py and of the sympy docstring *)
Example C20_ex_values :
  expand_A (PStr "x:2(1:3)") SeqAbsent = Ok (OSeq CTuple [OName "x01"; OName "x02"; OName "x11"; OName "x12"]) /\
  expand_A (PStr "x((a:b))") SeqAbsent = Ok (OSeq CTuple [OName "x(a)"; OName "x(b)"]) /\
  expand_A (PStr "x(:1\,:2)") SeqAbsent = Ok (OSeq CTuple [OName "x(0,0)"; OName "x(0,1)"]) /\
  expand_A (PStr "x5:10, :c") SeqAbsent =
    Ok (OSeq CTuple [OName "x5"; OName "x6"; OName "x7"; OName "x8"; OName "x9"; OName "a"; OName "b"; OName "c"]) /\
  expand_A (PStr "x") SeqAbsent = Ok (OName "x") /\
  expand_A (PStr "x,") SeqAbsent = Ok (OSeq CTuple [OName "x"]) /\
  expand_A (PStr "x") (SeqBool true) = Ok (OSeq CTuple [OName "x"]) /\
  expand_A (PStr "x:c") SeqAbsent = Ok (OSeq CTuple []) /\
  expand_A (PStr "x,,y") SeqAbsent = Err ValueErr /\
  expand_A (PStr "x:") SeqAbsent = Err ValueErr /\
  expand_A PBad SeqAbsent = Err TypeErr /\
  expand_A (PSeq CTuple [PStr "x2:5"; PStr "y:2"]) SeqAbsent =
    Ok (OSeq CTuple [OSeq CTuple [OName "x2"; OName "x3"; OName "x4"]; OSeq CTuple [OName "y0"; OName "y1"]]).
Proof. vm_compute. repeat split. Qed.

(* the guard of C20_nested_equal_partial holds for a nested pattern with ranges and lists *)
Example C20_ex_nested_guard :
  let p := PSeq CList [PStr "x:2"; PSeq CTuple [PStr "a, b"; PStr "c,"]] in
  (forall s, In s (inner_strings p) -> symbols_B (PStr s) (SeqBool true) = symbols_B (PStr s) SeqAbsent) /\
  expand_A p (SeqBool true) =
    Ok (OSeq CList [OSeq CTuple [OName "x0"; OName "x1"];
                    OSeq CTuple [OSeq CTuple [OName "a"; OName "b"]; OSeq CTuple [OName "c"]]]).
Proof.
  simpl. split; [|vm_compute; reflexivity].
  intros s [<-|[<-|[<-|[]]]]; vm_compute; reflexivity.
Qed.

(* the witness of the refutation, as the real code shows it, and the repaired refusal *)
Example C20_ex_witnesses :
  expand_A (PSeq CList [PStr "x"; PStr "y"]) (SeqBool true) = Ok (OSeq CList [OName "x"; OName "y"]) /\
  symbols_B (PSeq CList [PStr "x"; PStr "y"]) (SeqBool true) =
    Ok (OSeq CList [OSeq CTuple [OName "x"]; OSeq CTuple [OName "y"]]) /\
  element_of (product_new [SBasic KScalar "V"; SBasic KVector "W"]) (PStr "a,b,c") = Err ValueErr /\
  element_of_before_fix (product_new [SBasic KScalar "V"; SBasic KVector "W"]) (PStr "a,b,c") =
    Ok (ESeq CTuple [EFun KScalar "a" (SBasic KScalar "V"); EFun KVector "b" (SBasic KVector "W")]).
Proof. vm_compute. repeat split. Qed.

(* the structure theorems are not vacuous: elements are created, with a non-trivial result, for a
   product of three spaces (one factor itself a product) and for several elements of one space *)
Example C20_ex_elements :
  let V := SBasic KScalar "V" in let W := SBasic KVector "W" in let X := SBasic KScalar "X" in
  let sp := product_new [V; product_new [W; X]] in
  forallb flat_space [V; product_new [W; X]] = true /\
  element_of sp (PStr "u:3") = Ok (ESeq CTuple [EFun KScalar "u0" V; EFun KVector "u1" W; EFun KScalar "u2" X]) /\
  element_of V (PStr "v") = Ok (EFun KScalar "v" V) /\
  elements_of W (PSeq CList [PStr "a"; PStr "b:2"]) =
    Ok (ESeq CList [EFun KVector "a" W; ESeq CTuple [EFun KVector "b0" W; EFun KVector "b1" W]]) /\
  elements_of sp (PSeq CList [PStr "a,b"; PStr "c"; PStr "d:2"]) =
    Ok (ESeq CList [ESeq CTuple [EFun KScalar "a" V; EFun KScalar "b" V]; EFun KVector "c" W;
                    ESeq CTuple [EFun KScalar "d0" X; EFun KScalar "d1" X]]).
Proof. vm_compute. repeat split. Qed.

(* outside the property's quantifier (seq=None given explicitly, seq not a bool) the two
   functions differ by design; recorded so that the scope of C20_string_equal is exact *)
Example C20_ex_outside_scope :
  expand_A (PStr "x,") SeqNone <> symbols_B (PStr "x,") SeqNone /\
  expand_A (PStr "x") (SeqOther true) <> symbols_B (PStr "x") (SeqOther true).
Proof. exact (conj seq_none_differs seq_nonbool_differs). Qed.
