From Coq Require Import String Ascii List Bool.
From V Require Import Model.PatternsM Proofs.PatternsP.
Import ListNotations.
Theorem C20_str_equal : forall s seq, seq_in_scope seq -> expand_str_A s seq = symbols_str_B s seq.
Proof. exact str_equal. Qed.
Print Assumptions C20_str_equal.
