(* C13 (shared corners) - "... the grouping of shared corners agree[s] with the geometry of the patch layout".
   Property theorems only: each is closed by [exact] of a lemma of Proofs/CornersP.v and followed by
   Print Assumptions.  The model is Model/CornersM.v: Domain.get_shared_corners (the four while loops on explicit
   fuel, the element taken by set.pop() = the head of [start nt] for a parameter [start]), Boundary.rotate,
   Boundary.adjacent_boundaries, CornerBoundary / CornerInterface / Union of sympde/topology.

   Reading guide.  A corner is a pair of faces.  [cwf ifs] (Proofs/CornersP.v) says that the interface list ifs is a
   well-formed conforming 2-D layout: the faces involved are told apart by == and by str, every side of an interface
   is a face of a square, the two sides of an interface have the same axis, the orientation is 1 or -1, no face is a
   side of two interfaces.  [csides ifs] are the sides of the interfaces, [ckey] the code's canonical order of the two
   faces of a corner, [joined ifs c x] the relation "corner x is identified with corner c through interfaces"
   (reflexive-transitive closure, in both directions, of one step of the walk). *)
From Coq Require Import String List Bool Arith ZArith Permutation.
From V Require Import Core.Canon Model.TopologyM Proofs.TopologyP Model.CornersM Proofs.CornersP.
Import ListNotations.
Open Scope string_scope.

(* ---------------------------------------------------------------- hypotheses *)
(* the decidable form of the hypotheses, evaluated on every generated 2-D layout by the check *)
Theorem C13c_hypotheses_decidable : forall ifs, cwf_b ifs = true -> cwf ifs.
Proof. exact cwf_b_sound. Qed.
Print Assumptions C13c_hypotheses_decidable.

(* they hold for the interfaces of every well-formed join of squares with orientations 1 / -1
   (the hypotheses of C13_face_partition, plus: the joined faces are faces of squares) *)
Theorem C13c_join_is_well_formed : forall ps cs nm D rl,
  2 <= length ps -> join ps cs nm = Ok D -> resolve_all ps cs = Ok rl ->
  rl_no_bar rl -> pair_bound rl -> NoDup (joined_faces rl) ->
  fwf (flat_map (fun f => faces_of (f_patch f)) (joined_faces rl)) ->
  (forall f, In f (joined_faces rl) -> In f (faces_of (f_patch f)) /\ p_dim (f_patch f) = 2) ->
  (forall x, In x rl -> rornt x = O2 1 \/ rornt x = O2 (-1)) ->
  cwf (interfaces D).
Proof. exact join_cwf. Qed.
Print Assumptions C13c_join_is_well_formed.

(* ---------------------------------------------------------------- the modelled pieces *)
(* Boundary.rotate on a face of a square: the face itself for 1, the opposite face for -1 *)
Theorem C13c_rotate_square : forall f o,
  In f (faces_of (f_patch f)) -> p_dim (f_patch f) = 2 -> (o = O2 1 \/ o = O2 (-1)) ->
  rotate f [o] = Ok (match o with O2 (-1) => mkFace (f_patch f) (f_axis f) (- f_ext f) | _ => f end).
Proof. exact rotate_valid. Qed.
Print Assumptions C13c_rotate_square.

(* Boundary.adjacent_boundaries: the faces of the same patch along the other axes (any dimension) *)
Theorem C13c_adjacent_boundaries : forall f n,
  In n (adjacent_boundaries f) <-> In n (faces_of (f_patch f)) /\ f_axis n <> f_axis f.
Proof. exact adjacent_In. Qed.
Print Assumptions C13c_adjacent_boundaries.

(* ---------------------------------------------------------------- the walks end *)
(* no loop runs out of fuel (fuel = 1 + number of ordered pairs (interface face, adjacent face), i.e. 1 + 4 x the
   number of interface sides in 2-D) and nothing is refused: CFuel and CErr are excluded *)
Theorem C13c_corners_total : forall d, cwf (interfaces d) -> interfaces d <> [] ->
  forall start, (forall l, Permutation (start l) l) ->
  exists R, get_shared_corners start d = COk R.
Proof. exact shared_total. Qed.
Print Assumptions C13c_corners_total.

(* ---------------------------------------------------------------- (a) what a group consists of *)
(* every corner of every returned group is a pair of faces of ONE square with different axes, one of which is a
   side of an interface; it is listed in the canonical order of its two faces *)
Theorem C13c_corner_pairs : forall d, cwf (interfaces d) -> interfaces d <> [] ->
  forall start R G y, (forall l, Permutation (start l) l) ->
  get_shared_corners start d = COk R -> In G R -> In y G ->
  (f_patch (snd y) = f_patch (fst y)
   /\ In (fst y) (faces_of (f_patch (fst y))) /\ In (snd y) (faces_of (f_patch (fst y)))
   /\ p_dim (f_patch (fst y)) = 2 /\ f_axis (fst y) <> f_axis (snd y)
   /\ (In (fst y) (csides (interfaces d)) \/ In (snd y) (csides (interfaces d))))
  /\ ckey y = y.
Proof. exact shared_members. Qed.
Print Assumptions C13c_corner_pairs.

(* ---------------------------------------------------------------- (b) the groups partition those corners *)
(* every such corner (in either order of its faces) is in a returned group ... *)
Theorem C13c_partition_cover : forall d, cwf (interfaces d) -> interfaces d <> [] ->
  forall start R x, (forall l, Permutation (start l) l) ->
  get_shared_corners start d = COk R ->
  (f_patch (snd x) = f_patch (fst x)
   /\ In (fst x) (faces_of (f_patch (fst x))) /\ In (snd x) (faces_of (f_patch (fst x)))
   /\ p_dim (f_patch (fst x)) = 2 /\ f_axis (fst x) <> f_axis (snd x)
   /\ (In (fst x) (csides (interfaces d)) \/ In (snd x) (csides (interfaces d)))) ->
  exists G, In G R /\ In (ckey x) G.
Proof. exact shared_cover. Qed.
Print Assumptions C13c_partition_cover.

(* ... two different returned groups have no corner in common ... *)
Theorem C13c_partition_disjoint : forall d, cwf (interfaces d) -> interfaces d <> [] ->
  forall start R G1 G2, (forall l, Permutation (start l) l) ->
  get_shared_corners start d = COk R -> In G1 R -> In G2 R -> G1 <> G2 ->
  forall y, In y G1 -> ~ In y G2.
Proof. exact shared_disjoint. Qed.
Print Assumptions C13c_partition_disjoint.

(* ... no group is returned twice and none is empty ... *)
Theorem C13c_groups_distinct_nonempty : forall d, cwf (interfaces d) -> interfaces d <> [] ->
  forall start R, (forall l, Permutation (start l) l) ->
  get_shared_corners start d = COk R -> NoDup R /\ forall G, In G R -> G <> [].
Proof. exact shared_nodup. Qed.
Print Assumptions C13c_groups_distinct_nonempty.

(* ... and a group is exactly one class of corners identified through the interfaces (the geometry of the layout:
   crossing an interface with orientation o leads to the corner of the neighbour at the same / the opposite end) *)
Theorem C13c_group_is_identification_class : forall d, cwf (interfaces d) -> interfaces d <> [] ->
  forall start R G, (forall l, Permutation (start l) l) ->
  get_shared_corners start d = COk R -> In G R ->
  exists c, Vc (interfaces d) c /\ forall y, In y G <-> exists x, joined (interfaces d) c x /\ y = ckey x.
Proof. exact shared_classes. Qed.
Print Assumptions C13c_group_is_identification_class.

(* one step of the walk is "the same point seen from the other side of an interface": corner y is corner x across
   the interface i that the second face of x is a side of - the first face of y is the other side of i, the second
   face of y has the axis of the first face of x and lies at the same end (orientation 1) or at the opposite end
   (orientation -1); [joined] is the equivalence generated by these steps and by the same steps on mirrored corners *)
Theorem C13c_forward_step_crosses_an_interface : forall ifs x y,
  cwf ifs -> Vc ifs x ->
  (fstep (boundaries_of ifs) (directions_of ifs) x = Some (Ok y) <->
   exists i o, In i ifs /\ i_ornt i = O2 o /\
     ((snd x = i_minus i /\ fst y = i_plus i) \/ (snd x = i_plus i /\ fst y = i_minus i)) /\
     snd y = mkFace (f_patch (fst y)) (f_axis (fst x)) (o * f_ext (fst x))).
Proof. exact fstep_is_across. Qed.
Print Assumptions C13c_forward_step_crosses_an_interface.

Theorem C13c_backward_step_is_the_mirrored_forward_step : forall ifs x y,
  cwf ifs -> Vc ifs x ->
  (bstep (boundaries_of ifs) (directions_of ifs) x = Some (Ok y) <-> across ifs (cswap x) (cswap y)).
Proof. exact bstep_is_across. Qed.
Print Assumptions C13c_backward_step_is_the_mirrored_forward_step.

(* ---------------------------------------------------------------- (c) set.pop() *)
(* whatever corner set.pop() hands out first, the answer is the same (the printed forms of the groups of ONE run
   being pairwise different - decided per case by str_inj_b - so that the Union can order them) *)
Theorem C13c_start_independent : forall d, cwf (interfaces d) -> interfaces d <> [] ->
  forall s1 s2 R1 R2,
  (forall l, Permutation (s1 l) l) -> (forall l, Permutation (s2 l) l) ->
  get_shared_corners s1 d = COk R1 -> get_shared_corners s2 d = COk R2 ->
  (forall G G', In G R1 -> In G' R1 -> ci_str G = ci_str G' -> G = G') -> R1 = R2.
Proof. exact shared_start_independent. Qed.
Print Assumptions C13c_start_independent.

(* the order in which one recorded run of the implementation took the corners out of the set is such a `start`:
   the case files evaluate the model with exactly that order *)
Theorem C13c_recorded_run_is_a_start : forall seq l, Permutation (start_of seq l) l.
Proof. exact start_of_perm. Qed.
Print Assumptions C13c_recorded_run_is_a_start.

Theorem C13c_printed_forms_decidable : forall R,
  str_inj_b R = true -> forall G G', In G R -> In G' R -> ci_str G = ci_str G' -> G = G'.
Proof. exact str_inj_b_sound. Qed.
Print Assumptions C13c_printed_forms_decidable.

(* ... which is FALSE for CornerInterface.__new__ as it was before /repo's "fix: the corners of a CornerInterface
   are in a canonical order" (sorted by patch name only, the corners of one patch stay in the order of the walk):
   on the cylinder  A over B, both closed periodically in x,  two starts give different answers; the check
   exhibits the same two answers on the real code with different PYTHONHASHSEED *)
Theorem C13c_start_independent_legacy_refuted :
  exists D R1 R2, cylinder = Ok D /\ cwf_b (interfaces D) = true
    /\ get_shared_corners_legacy (fun l => l) D = COk R1
    /\ get_shared_corners_legacy (@rev corner) D = COk R2 /\ R1 <> R2
    /\ get_shared_corners (fun l => l) D = get_shared_corners (@rev corner) D.
Proof. exact legacy_start_refuted. Qed.
Print Assumptions C13c_start_independent_legacy_refuted.

(* ---------------------------------------------------------------- (d) non-vacuity *)
(* a 2x2 grid  A B / C E  (E mirrored in x): the hypotheses hold, the centre is shared by the four patches,
   the four boundary corners by two patches each; (patch, side along axis 0, side along axis 1) *)
Example C13c_grid_2x2 :
  exists D R, grid22 = Ok D /\ cwf_b (interfaces D) = true /\ interfaces D <> []
    /\ get_shared_corners (fun l => l) D = COk R /\ str_inj_b R = true
    /\ map (map cxy) R =
       [ [("A", -1, 1); ("C", -1, -1)];
         [("A", 1, -1); ("B", -1, -1)];
         [("A", 1, 1); ("B", -1, 1); ("C", 1, -1); ("E", 1, -1)];
         [("B", 1, 1); ("E", -1, -1)];
         [("C", 1, 1); ("E", 1, 1)] ]%Z.
Proof. exact grid22_corners. Qed.
