(* C13 - Joining patches partitions their faces and mirrors the logical domain.
   Property theorems only: each is closed by [exact] of a lemma of Proofs/TopologyP.v
   and followed by Print Assumptions.  The model is Model/TopologyM.v. *)
From Coq Require Import String List Bool Arith ZArith Sorted.
From V Require Import Core.Canon Model.TopologyM Proofs.TopologyP.
Import ListNotations.
Open Scope string_scope.

(* Every face of every patch is in the external boundary and in no interface, or it is not in the
   boundary and is exactly one side of exactly one interface.  For connection lists of any length;
   hypotheses: the faces of the family are told apart by == and str (fwf), the joined faces are
   pairwise distinct, patch names contain no '|', and no more than two connections join the same
   two patches (one for a patch with itself). *)
Theorem C13_face_partition : forall ps cs nm D rl,
  2 <= length ps -> join ps cs nm = Ok D -> resolve_all ps cs = Ok rl ->
  fwf (all_faces ps ++ joined_faces rl) -> NoDup (joined_faces rl) ->
  rl_no_bar rl -> pair_bound rl ->
  forall f, In f (all_faces ps) ->
    (In f (d_boundary D) /\ forall i, In i (d_conn D) -> f <> i_minus i /\ f <> i_plus i)
    \/ (~ In f (d_boundary D) /\
        exists i, In i (d_conn D) /\ side_of f i /\
                  forall j, In j (d_conn D) -> (f = i_minus j \/ f = i_plus j) -> j = i).
Proof. exact join_face_partition. Qed.
Print Assumptions C13_face_partition.

(* ... and the statement is false without the bound on connections per patch pair: the third
   connection between two patches overwrites a dictionary entry (Domain.join: interfaces[name] = ...) *)
Theorem C13_face_partition_refuted :
  exists ps cs nm D rl f,
    join ps cs nm = Ok D /\ resolve_all ps cs = Ok rl /\ 2 <= length ps /\
    fwf (all_faces ps ++ joined_faces rl) /\ NoDup (joined_faces rl) /\ rl_no_bar rl /\
    In f (all_faces ps) /\ ~ In f (d_boundary D) /\
    forall i, In i (d_conn D) -> f <> i_minus i /\ f <> i_plus i.
Proof. exact join_partition_refuted. Qed.
Print Assumptions C13_face_partition_refuted.

(* the connections of a successful join always resolve to faces *)
Theorem C13_join_resolves : forall ps cs nm D,
  2 <= length ps -> join ps cs nm = Ok D -> exists rl, resolve_all ps cs = Ok rl.
Proof. exact join_resolves. Qed.
Print Assumptions C13_join_resolves.

(* each declared connection is one interface, in order: the declared faces (minus/plus exchanged only
   by the name-clash rule), the declared orientation, the name minus|plus; names pairwise distinct *)
Theorem C13_declared_connections : forall ps cs nm D rl,
  2 <= length ps -> join ps cs nm = Ok D -> resolve_all ps cs = Ok rl ->
  rl_no_bar rl -> pair_bound rl ->
  Forall2 declared_as rl (d_conn D) /\ NoDup (map i_name (d_conn D)).
Proof. exact join_declared. Qed.
Print Assumptions C13_declared_connections.

(* what the user sees as Domain.interfaces (the Union sorted by name) is exactly the set of dictionary values
   the theorems above speak about *)
Theorem C13_interfaces_are_the_dictionary_values : forall D,
  NoDup (map i_name (d_conn D)) ->
  (forall i, In i (interfaces D) <-> In i (d_conn D))
  /\ NoDup (interfaces D) /\ StronglySorted (kle i_name) (interfaces D).
Proof. exact interfaces_In. Qed.
Print Assumptions C13_interfaces_are_the_dictionary_values.

(* all patches are interiors: the interior of the join is the sorted duplicate-free list of the
   interiors of the patches *)
Theorem C13_interiors : forall ps cs nm D,
  2 <= length ps -> join ps cs nm = Ok D -> pwf (flat_map d_interiors ps) ->
  (forall p, In p (d_interiors D) <-> exists d, In d ps /\ In p (d_interiors d))
  /\ NoDup (d_interiors D) /\ StronglySorted (kle pname) (d_interiors D).
Proof. exact join_interiors. Qed.
Print Assumptions C13_interiors.

(* mapped patches: the logical domain has the same structure on the logical patches, face by face
   (boundary = image of the boundary) and interface by interface (same order, sides, orientation) *)
Theorem C13_logical_twin : forall ps cs nm D rl,
  2 <= length ps -> join ps cs nm = Ok D -> resolve_all ps cs = Ok rl ->
  rl_no_bar rl -> pair_bound rl ->
  forallb is_mapped (d_interiors D) = true ->
  (forall f g, In f (joined_faces rl) -> In g (joined_faces rl) ->
               p_lname (f_patch f) = p_lname (f_patch g) -> pname (f_patch f) = pname (f_patch g)) ->
  (forall f, In f (joined_faces rl) -> no_bar (p_lname (f_patch f)) = true) ->
  fwf (map lface (d_boundary D)) -> pwf (map lpatch (d_interiors D)) ->
  exists L, d_logical D = Some L /\ d_name L = nm /\ d_dim L = d_dim D
    /\ d_logical L = None /\ d_mapping L = MNone
    /\ d_conn L = map liface (d_conn D)
    /\ (forall g, In g (d_boundary L) <-> exists f, In f (d_boundary D) /\ g = lface f)
    /\ (forall q, In q (d_interiors L) <-> exists p, In p (d_interiors D) /\ q = lpatch p).
Proof. exact join_twin. Qed.
Print Assumptions C13_logical_twin.

Theorem C13_logical_twin_one_to_one : forall (P : list patch) f g,
  (forall p q, In p P -> In q P -> p_lname p = p_lname q -> p = q) ->
  In (f_patch f) P -> In (f_patch g) P -> lface f = lface g -> f = g.
Proof. exact lface_inj. Qed.
Print Assumptions C13_logical_twin_one_to_one.

Theorem C13_no_twin_when_unmapped : forall ps cs nm D,
  2 <= length ps -> join ps cs nm = Ok D ->
  forallb is_mapped (d_interiors D) = false -> d_logical D = None /\ d_mapping D = MNone.
Proof. exact join_twin_unmapped. Qed.
Print Assumptions C13_no_twin_when_unmapped.

(* face lookup by (axis, side) *)
Theorem C13_get_boundary_sound : forall d a e f,
  get_boundary d a e = Ok f -> In f (d_boundary d) /\ f_axis f = a /\ f_ext f = e.
Proof. exact get_boundary_ok. Qed.
Print Assumptions C13_get_boundary_sound.

Theorem C13_get_boundary_refusal : forall d a e er,
  get_boundary d a e = Err er ->
  er = EValue /\ forall f, In f (d_boundary d) -> ~ (f_axis f = a /\ f_ext f = e).
Proof. exact get_boundary_err. Qed.
Print Assumptions C13_get_boundary_refusal.

(* on a patch: exactly the face (axis, ext), in every dimension; anything else is refused *)
Theorem C13_get_boundary_patch : forall q d a e,
  patch_like q d ->
  (a < p_dim q /\ (e = 1%Z \/ e = (-1)%Z) -> get_boundary d a e = Ok (mkFace q a e)) /\
  (~ (a < p_dim q /\ (e = 1%Z \/ e = (-1)%Z)) -> get_boundary d a e = Err EValue).
Proof. exact get_boundary_patch. Qed.
Print Assumptions C13_get_boundary_patch.

Theorem C13_ncube_is_patch : forall p, patch_like p (ncube_domain p).
Proof. exact ncube_patch_like. Qed.
Print Assumptions C13_ncube_is_patch.

Theorem C13_mapped_ncube_is_patch : forall m p,
  p_map p = None ->
  exists d, map_domain m (ncube_domain p) = Ok d /\ patch_like (map_patch m p) d
            /\ d_interiors d = [map_patch m p] /\ d_logical d = Some (ncube_domain p)
            /\ d_mapping d = MSingle m /\ d_conn d = [].
Proof. exact mapped_patch_like. Qed.
Print Assumptions C13_mapped_ncube_is_patch.

(* sub-domain extraction: the arms that do not rebuild a domain *)
Theorem C13_get_subdomain_empty : forall d, get_subdomain d (SelTuple []) = Ok None.
Proof. exact get_subdomain_empty. Qed.
Print Assumptions C13_get_subdomain_empty.

Theorem C13_get_subdomain_whole : forall d l p1 p2 r,
  d_interiors d = p1 :: p2 :: r -> l <> [] -> valid_tuple d l = true ->
  (length l = length (interior_names d) \/ smem (d_name d) l = true) ->
  get_subdomain d (SelTuple l) = Ok (Some d).
Proof. exact get_subdomain_whole. Qed.
Print Assumptions C13_get_subdomain_whole.

Theorem C13_get_subdomain_invalid : forall d l,
  l <> [] -> valid_tuple d l = false -> get_subdomain d (SelTuple l) = Err EAssert.
Proof. exact get_subdomain_invalid. Qed.
Print Assumptions C13_get_subdomain_invalid.

Theorem C13_get_subdomain_single_patch : forall d p,
  d_interiors d = [p] -> get_subdomain d (SelStr (pname p)) = Ok (Some d).
Proof. exact get_subdomain_single_patch. Qed.
Print Assumptions C13_get_subdomain_single_patch.

(* the general arm: a proper selection of patches.  The sub-domain consists of the selected patches; its
   boundary is made of their faces that are in the boundary of the whole domain plus the sides, on a selected
   patch, of the interfaces towards patches outside the selection; its interfaces are the interfaces of the
   whole domain between two different selected patches.  [sub_idict d] is the dictionary of the interfaces
   of d keyed by (minus patch, plus patch); [own d n] the boundary faces of d on patch n. *)
Theorem C13_get_subdomain_spec : forall d l U S,
  sub_hyps d l U -> get_subdomain d (SelTuple l) = Ok (Some S) ->
  (forall p, In p (d_interiors S) <-> In p (d_interiors d) /\ In (pname p) l)
  /\ (forall f, In f (d_boundary S) <->
        exists n, In n l /\
          (In f (own d n) \/
           exists o i, In o (interior_names d) /\ o <> n /\ ~ In o l /\ In i (sub_idict d) /\
                       ((ikey_eqb n o i = true /\ f = i_minus i) \/ (ikey_eqb o n i = true /\ f = i_plus i))))
  /\ (forall i, In i (d_conn S) <->
        In i (sub_idict d) /\ exists a b, In a l /\ In b l /\ a <> b /\ ikey_eqb a b i = true).
Proof. exact get_subdomain_spec. Qed.
Print Assumptions C13_get_subdomain_spec.

Theorem C13_own_faces : forall d U n f, fwf U -> incl (d_boundary d) U ->
  (In f (own d n) <->
   In f (d_boundary d) /\ pname (f_patch f) = n /\ f_axis f < d_dim d /\ (f_ext f = 1%Z \/ f_ext f = (-1)%Z)).
Proof. exact own_In. Qed.
Print Assumptions C13_own_faces.

Theorem C13_get_subdomain_hypotheses_decidable : forall d l,
  sub_hyps_b d l = true -> sub_hyps d l (sub_U d).
Proof. exact sub_hyps_b_sound. Qed.
Print Assumptions C13_get_subdomain_hypotheses_decidable.

(* ... and the extraction of a proper selection always succeeds, however few boundary faces a patch keeps *)
Theorem C13_get_subdomain_total : forall d l U,
  sub_hyps d l U -> (forall p, In p (d_interiors d) -> p_dim p = d_dim d) ->
  exists S, get_subdomain d (SelTuple l) = Ok (Some S).
Proof. exact get_subdomain_total. Qed.
Print Assumptions C13_get_subdomain_total.

(* two of three lines joined in a ring (each keeps ONE boundary face): the former failing input *)
Theorem C13_get_subdomain_ring :
  exists D S, ring3 = Ok D /\ valid_tuple D ["A"; "B"] = true /\
    get_subdomain D (SelTuple ["A"; "B"]) = Ok (Some S) /\
    d_boundary S = [mkFace lnA 0 (-1); mkFace lnB 0 1] /\
    d_conn S = [mkIface "A|B" (mkFace lnA 0 1) (mkFace lnB 0 (-1)) ONone] /\
    d_interiors S = [lnA; lnB].
Proof. exact get_subdomain_ring. Qed.
Print Assumptions C13_get_subdomain_ring.

(* where the faithful model contradicts the property (each confirmed on the real code by the check) *)
(* (historical: before commit be11fac of /repo a selected patch keeping fewer than two boundary faces made
   get_subdomain raise TypeError; the model then had the corresponding error arms and a lemma
   C13_get_subdomain_raises_refuted.  The repaired code is modelled now and the witness of that lemma is the
   positive example C13_get_subdomain_ring below.) *)
Theorem C13_get_subdomain_self_interface_refuted :
  exists D S, self_conn = Ok D /\ get_subdomain D (SelTuple ["A"]) = Ok (Some S) /\
    ~ In (mkFace sqA 1 1) (d_boundary S) /\
    forall i, In i (d_conn S) -> mkFace sqA 1 1 <> i_minus i /\ mkFace sqA 1 1 <> i_plus i.
Proof. exact get_subdomain_self_interface_refuted. Qed.
Print Assumptions C13_get_subdomain_self_interface_refuted.

(* a mapping applied to a joined domain: every interface of the result is the image of an interface of the
   argument with the same name and the same orientation (full strength since /repo's
   "fix: MappedDomain keeps the orientation"; before, the orientation was dropped in 2-D and the call raised in 3-D) *)
Theorem C13_map_joined_keeps_orientation : forall m d D,
  map_domain m d = Ok D -> forall i, In i (d_conn D) ->
  exists e, In e (interfaces d) /\ i_name i = i_name e /\ i_ornt i = i_ornt e /\
            i_minus i = map_face m (i_minus e) /\ i_plus i = map_face m (i_plus e).
Proof. exact map_domain_keeps_orientation. Qed.
Print Assumptions C13_map_joined_keeps_orientation.

Example C13_map_joined_orientation_2d :
  exists J D L, joined_m1 = Ok J /\ map_domain "M" J = Ok D /\ d_logical D = Some L /\
    map i_ornt (d_conn L) = [O2 (-1)] /\ map i_ornt (d_conn D) = [O2 (-1)].
Proof. exact map_joined_orientation_kept. Qed.

Example C13_map_joined_3d :
  exists J D, join [ncube_domain cbA; ncube_domain cbB]
                 [ mkConn (mkSide (PIdx 0) 0 1) (mkSide (PIdx 1) 0 (-1)) None ] "J" = Ok J
            /\ map_domain "M" J = Ok D /\ map i_ornt (d_conn D) = map i_ornt (d_conn J) /\ length (d_conn D) = 1.
Proof. exact map_joined_3d_ok. Qed.

Theorem C13_twin_shared_logical_refuted :
  exists D L,
    join [patch_dom (mkPatch "A" (Some "F0") 2 ["0"; "0"] ["1"; "1"]);
          patch_dom (mkPatch "A" (Some "F1") 2 ["0"; "0"] ["1"; "1"])]
         [ mkConn (mkSide (PIdx 0) 0 1) (mkSide (PIdx 1) 0 (-1)) (Some (O2 1)) ] "Omega" = Ok D
    /\ d_logical D = Some L /\ length (d_interiors D) = 2 /\ length (d_interiors L) = 1.
Proof. exact twin_shared_logical_refuted. Qed.
Print Assumptions C13_twin_shared_logical_refuted.

(* the decidable form of the hypotheses, evaluated on every generated case by the check *)
Theorem C13_hypotheses_decidable : forall ps cs,
  wf_join_b ps cs = true ->
  exists rl, resolve_all ps cs = Ok rl /\ 2 <= length ps /\
             fwf (all_faces ps ++ joined_faces rl) /\ NoDup (joined_faces rl) /\ rl_no_bar rl /\
             pwf (flat_map d_interiors ps).
Proof. exact wf_join_b_sound. Qed.
Print Assumptions C13_hypotheses_decidable.

Theorem C13_pair_bound_decidable : forall ps cs rl,
  pair_bound_b ps cs = true -> resolve_all ps cs = Ok rl -> pair_bound rl.
Proof. exact pair_bound_b_sound. Qed.
Print Assumptions C13_pair_bound_decidable.

(* non-vacuity: a 2x2 grid of mapped squares with its four connections meets every hypothesis,
   and the join succeeds *)
Definition nv_patch (n m : string) : domain :=
  match map_domain m (ncube_domain (mkPatch n None 2 ["0"; "0"] ["1"; "1"])) with
  | Ok d => d | Err _ => ncube_domain (mkPatch n None 2 ["0"; "0"] ["1"; "1"]) end.
Definition nv_ps : list domain := [nv_patch "A" "M1"; nv_patch "B" "M2"; nv_patch "C" "M3"; nv_patch "E" "M4"].
Definition nv_cs : list conn :=
  [ mkConn (mkSide (PIdx 0) 0 1) (mkSide (PIdx 1) 0 (-1)) (Some (O2 1));
    mkConn (mkSide (PIdx 2) 0 1) (mkSide (PIdx 3) 0 (-1)) (Some (O2 (-1)));
    mkConn (mkSide (PIdx 0) 1 1) (mkSide (PIdx 2) 1 (-1)) None;
    mkConn (mkSide (PIdx 3) 1 (-1)) (mkSide (PIdx 1) 1 1) (Some (O2 (-1))) ].
Example C13_nonvacuous :
  wf_join_b nv_ps nv_cs = true /\ pair_bound_b nv_ps nv_cs = true /\
  (exists D, join nv_ps nv_cs "Omega" = Ok D /\ length (d_conn D) = 4 /\ length (d_boundary D) = 8
             /\ forallb is_mapped (d_interiors D) = true).
Proof.
  split; [vm_compute; reflexivity|]. split; [vm_compute; reflexivity|].
  destruct (join nv_ps nv_cs "Omega") as [D|] eqn:E; [|vm_compute in E; discriminate].
  exists D. split; [reflexivity|]. vm_compute in E. inversion E. vm_compute. auto.
Qed.
