(* Executable model of the grouping of shared corners (C13):
     sympde/topology/domain.py   Domain.get_shared_corners, NCubeInterior.boundary / get_boundary
     sympde/topology/basic.py    Boundary.adjacent_boundaries, Boundary.rotate,
                                 CornerBoundary.__new__, CornerInterface.__new__, Union
   The functions follow the Python code arm for arm.  The four `while` loops of get_shared_corners are
   recursions on explicit fuel (out of fuel is the value CFuel, never a silent answer); the element taken
   by `set.pop()` is the head of `start nt`, where `start` is a parameter (any function that permutes its
   argument); Python's dicts are association lists keyed by Boundary.__eq__ in insertion order.
   No proofs here. *)
From Coq Require Import String Ascii List Bool Arith PeanoNat ZArith.
From V Require Import Core.Canon Model.TopologyM.
Import ListNotations.
Open Scope string_scope.
Open Scope list_scope.
Local Infix "+++" := String.append (right associativity, at level 60).

(* ------------------------------------------------------------------ results *)
Inductive cres (A : Type) : Type :=
| COk (a : A)
| CErr (e : err)      (* the Python code raises *)
| CFuel.              (* a `while` loop did not end within the fuel (the Python code would still be running) *)
Arguments COk {A} a. Arguments CErr {A} e. Arguments CFuel {A}.
Definition cbind {A B} (r : cres A) (f : A -> cres B) : cres B :=
  match r with COk a => f a | CErr e => CErr e | CFuel => CFuel end.
Definition lift {A} (r : res A) : cres A := match r with Ok a => COk a | Err e => CErr e end.
Notation "'cdo' x <- r ; k" := (cbind r (fun x => k))
  (at level 200, x name, r at level 100, k at level 200).

(* ------------------------------------------------------------------ patches and faces *)
(* NCubeInterior.boundary = Union(..all faces) *)
Definition patch_boundary (p : patch) : list face := canonF (faces_of p).

(* NCubeInterior.get_boundary(axis, ext): first face of the Union with that ext and axis; ValueError when
   there is none (also when the boundary is not a Union) *)
Definition patch_get_boundary (p : patch) (a : nat) (e : Z) : res face :=
  match find (fun f => Z.eqb (f_ext f) e && Nat.eqb (f_axis f) a) (patch_boundary p) with
  | Some f => Ok f
  | None => Err EValue
  end.

(* Boundary.adjacent_boundaries = Union(..[a for a in self.domain.boundary if a.axis != self.axis]) *)
Definition adjacent_boundaries (f : face) : list face :=
  canonF (filter (fun a => negb (Nat.eqb (f_axis a) (f_axis f))) (patch_boundary (f_patch f))).
(* `for n in b.adjacent_boundaries`: an empty Union is None, a Union of one face is that face: neither
   can be iterated (TypeError) *)
Definition adjacent_iter (f : face) : res (list face) :=
  match adjacent_boundaries f with
  | [] => Err EType
  | [_] => Err EType
  | l => Ok l
  end.

(* Boundary.rotate( *directions ) *)
Definition rotate (f : face) (ds : list ornt) : res face :=
  let dim := p_dim (f_patch f) in
  if negb (Nat.eqb (S (length ds)) dim) then Err EAssert else      (* assert len(directions) == self.dim-1 *)
  if Nat.eqb dim 2 then
    match ds with
    | O2 o :: _ =>
        if Z.eqb o 1 then Ok f
        else if Z.eqb o (-1) then patch_get_boundary (f_patch f) (f_axis f) (- f_ext f)
        else Err EType                                               (* 'must be int' *)
    | _ => Err EType                                                 (* None / a tuple equals neither 1 nor -1 *)
    end
  else Err ENotImpl.                                                 (* 'only 2d case is available' *)

(* ------------------------------------------------------------------ dictionaries keyed by a Boundary *)
Fixpoint fd_set {V} (k : face) (v : V) (l : list (face * V)) : list (face * V) :=
  match l with
  | [] => [(k, v)]
  | (k', v') :: r => if face_pyeqb k' k then (k', v) :: r else (k', v') :: fd_set k v r
  end.
Fixpoint fd_get {V} (k : face) (l : list (face * V)) : option V :=
  match l with
  | [] => None
  | (k', v) :: r => if face_pyeqb k' k then Some v else fd_get k r
  end.
Definition fd_mem {V} (k : face) (l : list (face * V)) : bool :=
  match fd_get k l with Some _ => true | None => false end.

(* directions = {i.plus: i.ornt for i in interfaces}; directions.update({i.minus: i.ornt for i in interfaces}) *)
Definition directions_of (ifs : list iface) : list (face * ornt) :=
  fold_left (fun acc i => fd_set (i_minus i) (i_ornt i) acc) ifs
    (fold_left (fun acc i => fd_set (i_plus i) (i_ornt i) acc) ifs []).
(* boundaries = {i.minus: i.plus for i in interfaces}
   boundaries.update({value: key for key, value in boundaries.items()}) *)
Definition boundaries_of (ifs : list iface) : list (face * face) :=
  let b0 := fold_left (fun acc i => fd_set (i_minus i) (i_plus i) acc) ifs [] in
  let inv := fold_left (fun acc kv => fd_set (snd kv) (fst kv) acc) b0 [] in
  fold_left (fun acc kv => fd_set (fst kv) (snd kv) acc) inv b0.

(* ------------------------------------------------------------------ corners *)
(* a corner is a pair of faces (a Python 2-tuple of Boundary objects) *)
Definition corner := (face * face)%type.
Definition corner_pyeqb (c d : corner) : bool :=
  face_pyeqb (fst c) (fst d) && face_pyeqb (snd c) (snd d).

(* key = lambda b: (str(b.domain.name), b.axis, b.ext), compared as Python compares tuples *)
Definition bkey_ltb (a b : face) : bool :=
  match String.compare (pname (f_patch a)) (pname (f_patch b)) with
  | Lt => true
  | Gt => false
  | Eq => if Nat.ltb (f_axis a) (f_axis b) then true
          else if Nat.ltb (f_axis b) (f_axis a) then false
          else Z.ltb (f_ext a) (f_ext b)
  end.
(* ckey = lambda c: tuple(sorted(c, key=...)) on a pair (sorted is stable) *)
Definition ckey (c : corner) : corner :=
  if bkey_ltb (snd c) (fst c) then (snd c, fst c) else c.

(* ------------------------------------------------------------------ one iteration of a walk *)
Section Steps.
  Variable B : list (face * face).      (* boundaries *)
  Variable Dr : list (face * ornt).     (* directions *)

  Definition dir_get (k : face) : res ornt :=
    match fd_get k Dr with Some o => Ok o | None => Err EKey end.

  (* forward:  while corner[1] in boundaries:
                   bd1    = boundaries[corner[1]]
                   bd2    = bd1.domain.get_boundary(axis=corner[0].axis, ext=corner[0].ext)
                   corner = (bd1, bd2.rotate(directions[bd1]))
     None: the loop condition is false *)
  Definition fstep (c : corner) : option (res corner) :=
    match fd_get (snd c) B with
    | None => None
    | Some bd1 =>
        Some (do bd2 <- patch_get_boundary (f_patch bd1) (f_axis (fst c)) (f_ext (fst c));
              do o <- dir_get bd1;
              do r <- rotate bd2 [o];
              Ok (bd1, r))
    end.

  (* backward: while corner[0] in boundaries:
                   bd2    = boundaries[corner[0]]
                   bd1    = bd2.domain.get_boundary(axis=corner[1].axis, ext=corner[1].ext)
                   corner = (bd1.rotate(directions[bd2]), bd2) *)
  Definition bstep (c : corner) : option (res corner) :=
    match fd_get (fst c) B with
    | None => None
    | Some bd2 =>
        Some (do bd1 <- patch_get_boundary (f_patch bd2) (f_axis (snd c)) (f_ext (snd c));
              do o <- dir_get bd2;
              do r <- rotate bd1 [o];
              Ok (r, bd2))
    end.
End Steps.

(* ------------------------------------------------------------------ the four loops *)
Section Walk.
  Variable fs bs : corner -> option (res corner).   (* fstep / bstep of the domain *)
  Variable in0 in1 : corner -> bool.                (* corner[0] in boundaries, corner[1] in boundaries *)

  (* first branch, forward:  grouped_corners[-1].append(corner) *)
  Fixpoint fwd_open (fuel : nat) (c : corner) (g : list corner) : cres (list corner) :=
    match fs c with
    | None => COk g
    | Some r =>
        match fuel with
        | 0 => CFuel
        | S n => match r with
                 | Err e => CErr e
                 | Ok c' => fwd_open n c' (g ++ [c'])
                 end
        end
    end.

  (* first branch, backward:  grouped_corners[-1].insert(0, corner) *)
  Fixpoint bwd_open (fuel : nat) (c : corner) (g : list corner) : cres (list corner) :=
    match bs c with
    | None => COk g
    | Some r =>
        match fuel with
        | 0 => CFuel
        | S n => match r with
                 | Err e => CErr e
                 | Ok c' => bwd_open n c' (c' :: g)
                 end
        end
    end.

  (* second branch, forward:  if corner == grouped_corners[-1][0]: break   (true: left by break) *)
  Fixpoint fwd_closed (fuel : nat) (first c : corner) (g : list corner) : cres (list corner * bool) :=
    match fs c with
    | None => COk (g, false)
    | Some r =>
        match fuel with
        | 0 => CFuel
        | S n => match r with
                 | Err e => CErr e
                 | Ok c' => if corner_pyeqb c' first then COk (g, true)
                            else fwd_closed n first c' (g ++ [c'])
                 end
        end
    end.

  (* second branch, the `else` of the while: backward *)
  Fixpoint bwd_closed (fuel : nat) (c : corner) (g : list corner) : cres (list corner) :=
    match bs c with
    | None => COk g
    | Some r =>
        match fuel with
        | 0 => CFuel
        | S n => match r with
                 | Err e => CErr e
                 | Ok c' => bwd_closed n c' (c' :: g)
                 end
        end
    end.

  (* the body of `while not_treated_corners` after the pop: the group of the corner, in walk order *)
  Definition group_of (fuel : nat) (c : corner) : cres (list corner) :=
    if negb (in0 c && in1 c) then
      cdo g1 <- fwd_open fuel c [c];
      bwd_open fuel (hd c g1) g1                       (* corner = grouped_corners[-1][0] *)
    else
      cdo x <- fwd_closed fuel c c [c];
      if snd x then COk (fst x)
      else bwd_closed fuel (hd c (fst x)) (fst x).

  (* while not_treated_corners:
         corner = not_treated_corners.pop()              -- the head of (start nt)
         ...
         grouped_corners[-1] = tuple(ckey(c) for c in grouped_corners[-1])
         not_treated_corners = not_treated_corners.difference(grouped_corners[-1]) *)
  Fixpoint groups_loop (start : list corner -> list corner) (ofuel fuel : nat)
           (nt : list corner) (acc : list (list corner)) : cres (list (list corner)) :=
    match start nt with
    | [] => COk acc
    | c :: rest =>
        match ofuel with
        | 0 => CFuel
        | S k =>
            cdo g <- group_of fuel c;
            let gk := map ckey g in
            groups_loop start k fuel (filter (fun x => negb (mem corner_pyeqb x gk)) rest) (acc ++ [gk])
        end
    end.
End Walk.

(* ------------------------------------------------------------------ CornerBoundary / CornerInterface / Union *)
(* CornerBoundary( *boundaries ): all on the same patch (assert), sorted by axis (stable) *)
Definition cb_new (c : corner) : res corner :=
  (* assert all(i.domain == boundaries[0].domain for i in boundaries) *)
  if negb (patch_pyeqb (f_patch (snd c)) (f_patch (fst c))) then Err EAssert
  else Ok (if Nat.ltb (f_axis (snd c)) (f_axis (fst c)) then (snd c, fst c) else c).

Definition cb_name (c : corner) : string := pname (f_patch (fst c)).
(* the key of the repaired CornerInterface.__new__ (see ci_new below):
   (x.domain.name, tuple((b.axis, b.ext) for b in x.boundaries)), compared as Python compares tuples *)
Definition lexc (c1 c2 : comparison) : comparison := match c1 with Eq => c2 | x => x end.
Definition cb_key (c : corner) : string * (nat * (Z * (nat * Z))) :=
  (cb_name c, (f_axis (fst c), (f_ext (fst c), (f_axis (snd c), f_ext (snd c))))).
Definition key_cmp (k k' : string * (nat * (Z * (nat * Z)))) : comparison :=
  lexc (String.compare (fst k) (fst k'))
    (lexc (Nat.compare (fst (snd k)) (fst (snd k')))
       (lexc (Z.compare (fst (snd (snd k))) (fst (snd (snd k'))))
          (lexc (Nat.compare (fst (snd (snd (snd k)))) (fst (snd (snd (snd k')))))
                (Z.compare (snd (snd (snd (snd k)))) (snd (snd (snd (snd k')))))))).
Definition cb_leb (c d : corner) : bool :=
  match key_cmp (cb_key c) (cb_key d) with Gt => false | _ => true end.
(* sorted(..): stable insertion sort for a boolean "less or equal" *)
Fixpoint insert_by {A} (leb : A -> A -> bool) (a : A) (l : list A) : list A :=
  match l with
  | [] => [a]
  | b :: r => if leb a b then a :: l else b :: insert_by leb a r
  end.
Definition sort_by {A} (leb : A -> A -> bool) (l : list A) : list A := fold_right (insert_by leb) [] l.

(* CornerInterface( *corners ) as repaired by "fix: the corners of a CornerInterface are in a canonical order"
   (proposed by the builder of this model): sorted by (patch name, faces) *)
Definition ci_new (g : list corner) : list corner := sort_by cb_leb g.
(* ... and before that fix: corners = sorted(corners, key=lambda x: x.domain.name): two corners of the same patch
   stay in the order of the walk, i.e. the answer depends on set.pop() (Props/C13c.v,
   C13c_start_independent_legacy_refuted).  The check probes which of the two the implementation has and compares
   with the corresponding model. *)
Definition ci_new_legacy (g : list corner) : list corner := sort cb_name g.

(* printed forms: 'CornerBoundary(b0, b1)', 'CornerInterface(c0, c1, ..)' *)
Definition cb_str (c : corner) : string :=
  "CornerBoundary(" +++ face_str (fst c) +++ ", " +++ face_str (snd c) +++ ")".
Fixpoint join_str (sep : string) (l : list string) : string :=
  match l with
  | [] => ""
  | [s] => s
  | s :: r => s +++ sep +++ join_str sep r
  end.
Definition ci_str (g : list corner) : string := "CornerInterface(" +++ join_str ", " (map cb_str g) +++ ")".
(* Basic.__eq__ on CornerInterface: the same CornerBoundary arguments in the same order *)
Definition group_pyeqb (g h : list corner) : bool := list_beq corner_pyeqb g h.

(* ------------------------------------------------------------------ Domain.get_shared_corners *)
(* every ordered pair (interface face, adjacent face) and its mirror: the walks stay inside this list
   for a well-formed domain (Proofs/CornersP.v), so its length bounds every loop *)
Definition universe (B : list (face * face)) : list corner :=
  flat_map (fun kv => flat_map (fun n => [(fst kv, n); (n, fst kv)]) (adjacent_boundaries (fst kv))) B.

Definition finish (ci : list corner -> list corner) (groups : list (list corner)) : cres (list (list corner)) :=
  (* grouped_corners = set(tuple(grouped_corners)) *)
  let gs := dedup group_pyeqb groups in
  (* Union( *[CornerInterface( *[CornerBoundary( *e ) for e in cs]) for cs in grouped_corners]) *)
  cdo cis <- lift (mapM (fun g => do cbs <- mapM cb_new g; Ok (ci cbs)) gs);
  COk (canon group_pyeqb ci_str cis).

(* from `directions = ...` to the end of `while not_treated_corners`: the groups in the order of the walks *)
Definition corner_groups (start : list corner -> list corner) (ifs : list iface) : cres (list (list corner)) :=
  let Dr := directions_of ifs in
  let B := boundaries_of ifs in
  (* not_treated_corners = set([ckey((b, n)) for b in boundaries for n in b.adjacent_boundaries]) *)
  cdo pairs <- lift (mapM (fun kv => do adj <- adjacent_iter (fst kv);
                                     Ok (map (fun n => ckey (fst kv, n)) adj)) B);
  let nt := dedup corner_pyeqb (concat pairs) in
  let fuel := S (length (universe B)) in
  groups_loop (fstep B Dr) (bstep B Dr)
              (fun c => fd_mem (fst c) B) (fun c => fd_mem (snd c) B)
              start (S (length nt)) fuel nt [].

Definition shared_corners_with (ci : list corner -> list corner)
           (start : list corner -> list corner) (d : domain) : cres (list (list corner)) :=
  (* interfaces = self.interfaces; a single Interface is wrapped in a tuple; None cannot be iterated *)
  match interfaces d with
  | [] => CErr EType
  | ifs => cdo groups <- corner_groups start ifs; finish ci groups
  end.

Definition get_shared_corners := shared_corners_with ci_new.
Definition get_shared_corners_legacy := shared_corners_with ci_new_legacy.

(* the `start` of one run of the implementation: [seq] are the corners in the order in which that run took them out
   of the set (recorded by the harness); the next one that is still untreated goes to the front *)
Definition start_of (seq : list corner) (nt : list corner) : list corner :=
  match find (fun c => mem corner_pyeqb c nt) seq with
  | Some c => filter (corner_pyeqb c) nt ++ filter (fun x => negb (corner_pyeqb c x)) nt
  | None => nt
  end.

(* ------------------------------------------------------------------ comparisons used by the case files *)
Definition corner_beq (c d : corner) : bool := face_beq (fst c) (fst d) && face_beq (snd c) (snd d).
Definition groups_beq (a b : list (list corner)) : bool := list_beq (list_beq corner_beq) a b.
(* what the harness reads off D.corners (a list of CornerInterface, each a list of CornerBoundary), put in the
   canonical order: the order of the corners of one patch inside a CornerInterface depended on set.pop() before
   the fix named above, and with it the printed form that orders the Union *)
Definition cnorm (l : list (list corner)) : list (list corner) := sort ci_str (map ci_new l).
(* CornerInterface sorts its corners by patch name: checked on the implementation's answer as it is *)
Fixpoint name_sorted (g : list corner) : bool :=
  match g with
  | c :: (d :: _) as r => String.leb (cb_name c) (cb_name d) && name_sorted r
  | _ => true
  end.
Definition corners_sim (model impl : cres (list (list corner))) : bool :=
  match model, impl with
  | COk a, COk b => groups_beq (cnorm a) (cnorm b) && forallb name_sorted b
  | CErr e, CErr e' => err_beq e e'
  | CFuel, CFuel => true
  | _, _ => false
  end.
(* the same without re-ordering the implementation's answer *)
Definition corners_same (model impl : cres (list (list corner))) : bool :=
  match model, impl with
  | COk a, COk b => groups_beq a b
  | CErr e, CErr e' => err_beq e e'
  | CFuel, CFuel => true
  | _, _ => false
  end.
Definition rotate_sim (model impl : res face) : bool := res_face_sim model impl.
Definition faces_sim (model impl : res (list face)) : bool :=
  match model, impl with
  | Ok a, Ok b => list_beq face_beq a b
  | Err e, Err e' => err_beq e e'
  | _, _ => false
  end.
