(* Executable model of the interface handling of sympde.expr.evaluation (C07):
     _split_expr_over_interface  (expansion of jump [/avg], _nullify, renaming of the restricted
                                  arguments in the same-side pieces, normal reversal on the plus
                                  side, accumulation keyed by face / (trial side, test side))
     the interface loop of TerminalExpr.eval (accumulation over several interfaces)
     _to_matrix_form              (removal of minus/plus on a boundary, entry (i,j))
   arm for arm.  The model works on scalar integrands whose tensor operators (dot, grad, div, Dn)
   are already written in components; the interface operators jump / avg are still nodes.
   Two-sided environment: a function w has the two restrictions [AFld .. w c SMinus ..] and
   [AFld .. w c SPlus ..]; [AFld .. SNone ..] is the unrestricted function (argument of
   jump / avg, or a function in a boundary kernel).  No proofs here. *)
From Coq Require Import String ZArith List Bool Arith.
From V Require Import Core.Terminal.
Import ListNotations.

(* ------------------------------------------------------------------ substitution of atoms *)
Fixpoint amap (g : atom -> texpr) (t : texpr) : texpr :=
  match t with
  | TZ _ | TQ _ _ => t
  | TAt a => g a
  | TAdd a b => TAdd (amap g a) (amap g b)
  | TSub a b => TSub (amap g a) (amap g b)
  | TMul a b => TMul (amap g a) (amap g b)
  | TDiv a b => TDiv (amap g a) (amap g b)
  | TOpp a => TOpp (amap g a)
  | TInv a => TInv (amap g a)
  | TPowN a n => TPowN (amap g a) n
  | TFn f a => TFn f (amap g a)
  | TPowG b e => TPowG (amap g b) (amap g e)
  end.

(* a class of field atoms: all derivative atoms of the (function, component, side)s selected *)
Definition fpred := string -> nat -> side -> bool.

Definition on_fld (Q : fpred) (a : atom) : bool :=
  match a with AFld _ f c s _ => Q f c s | _ => false end.

(* expr.subs({w: 0}) for every w of the class (all derivative atoms of w vanish with it) *)
Definition zero_out (Q : fpred) : texpr -> texpr :=
  amap (fun a => if on_fld Q a then TZ 0 else TAt a).

(* change of the side tag of field atoms *)
Definition reside (r : string -> nat -> side -> side) : texpr -> texpr :=
  amap (fun a => match a with AFld l f c s al => TAt (AFld l f c (r f c s) al) | _ => TAt a end).

(* minus(w) / plus(w) of an unrestricted w: MinusInterfaceOperator.eval is additive and
   multiplicative, pulls numeric / constant coefficients out, sends Dn(u) to
   Dot(Grad(minus(u)), minus(n)) and the normal vector to MinusNormalVector;
   _split_expr_over_interface (_restrict_to_side) pushes what is left through powers and through
   all algebraic / differential operators, so that every field atom of w (also the derivative
   atoms) and every normal atom gets the side *)
Definition restrict (s0 : side) : texpr -> texpr :=
  amap (fun a => match a with
                 | AFld l f c SNone al => TAt (AFld l f c s0 al)
                 | ANormal SNone i => TAt (ANormal s0 i)
                 | _ => TAt a
                 end).

(* newexpr.replace(nn, -nn) for every normal vector nn *)
Definition flipn : texpr -> texpr :=
  amap (fun a => match a with ANormal s i => TOpp (TAt (ANormal s i)) | _ => TAt a end).

(* ------------------------------------------------------------------ interface integrands *)
Inductive iex :=
| IT (t : texpr)        (* terminal part: numbers, constants, coordinates, normals, restricted atoms *)
| IJump (w : texpr)     (* jump(w), w over unrestricted atoms *)
| IAvg (w : texpr)      (* avg(w) *)
| IAdd (a b : iex)
| IMul (a b : iex)
| IOpp (a : iex).

(* the meaning: jump(w) = w^- - w^+, avg(w) = (w^- + w^+)/2 *)
Fixpoint iden (e : iex) : texpr :=
  match e with
  | IT t => t
  | IJump w => TSub (restrict SMinus w) (restrict SPlus w)
  | IAvg w => TDiv (TAdd (restrict SMinus w) (restrict SPlus w)) (TZ 2)
  | IAdd a b => TAdd (iden a) (iden b)
  | IMul a b => TMul (iden a) (iden b)
  | IOpp a => TOpp (iden a)
  end.

(* sympy substitutions see the terminal parts only: Jump(..) / Average(..) nodes that are still
   present contain the unrestricted function, never minus(u) / plus(u) *)
Fixpoint imap (g : texpr -> texpr) (e : iex) : iex :=
  match e with
  | IT t => IT (g t)
  | IJump w => IJump w
  | IAvg w => IAvg w
  | IAdd a b => IAdd (imap g a) (imap g b)
  | IMul a b => IMul (imap g a) (imap g b)
  | IOpp a => IOpp (imap g a)
  end.

(* which state of the code is modelled.  The code under study is [cfg_repaired]:
     expand_avg = true : Average is expanded like Jump                    (repair dace187)
     lin_flip   = true : linear forms reverse the normal on the plus face (repair 4ecfb40)
   [cfg_found] is the code before these repairs ("TODO add sub for avg"; no reversal in the linear
   branch); it is kept for the historical refutation lemmas only.  The repairs 6d0684b (minus/plus
   are pushed through grad, div, ... of an argument) and b51ca38 (through EVERY compound expression:
   dot(grad(w), nn), f*w, f**2, div(grad(w)), ... - _restrict_to_side) are what [restrict] does: it is
   a homomorphism that reaches the field atoms and the normal; the earlier behaviour (such terms
   were never split) is not modelled. *)
Record cfg := { expand_avg : bool; lin_flip : bool }.
Definition cfg_found : cfg := {| expand_avg := false; lin_flip := false |}.
Definition cfg_repaired : cfg := {| expand_avg := true; lin_flip := true |}.
Definition the_code : cfg := cfg_repaired.

(* "we replace all jumps":  expr.subs({jump(a): minus(a) - plus(a)}) *)
Fixpoint expand (c : cfg) (e : iex) : iex :=
  match e with
  | IT t => IT t
  | IJump w => IT (TSub (restrict SMinus w) (restrict SPlus w))
  | IAvg w => if expand_avg c then IT (TDiv (TAdd (restrict SMinus w) (restrict SPlus w)) (TZ 2)) else IAvg w
  | IAdd a b => IAdd (expand c a) (expand c b)
  | IMul a b => IMul (expand c a) (expand c b)
  | IOpp a => IOpp (expand c a)
  end.

(* sympy's automatic propagation of 0 through products / sums (what `is_zero(newexpr)` sees) *)
Fixpoint tzero (t : texpr) : bool :=
  match t with
  | TZ z => Z.eqb z 0
  | TAdd a b | TSub a b => tzero a && tzero b
  | TMul a b => tzero a || tzero b
  | TDiv a _ => tzero a
  | TOpp a => tzero a
  | TPowN a (Npos _) => tzero a
  | _ => false
  end.

Fixpoint zerob (e : iex) : bool :=
  match e with
  | IT t => tzero t
  | IJump _ | IAvg _ => false
  | IAdd a b => zerob a && zerob b
  | IMul a b => zerob a || zerob b
  | IOpp a => zerob a
  end.

(* ------------------------------------------------------------------ restricted symbols *)
Definition rsym := (string * side)%type.          (* minus(u) = (u, SMinus), plus(u) = (u, SPlus) *)

Definition rsym_eqb (a b : rsym) : bool := String.eqb (fst a) (fst b) && side_eqb (snd a) (snd b).

Definition is_rsym (r : rsym) : fpred := fun f _ s => String.eqb f (fst r) && side_eqb s (snd r).

(* d_trials / d_tests flattened: [u1^-; u1^+; u2^-; u2^+; ...] *)
Definition rs_of (fs : list string) : list rsym :=
  flat_map (fun u => [(u, SMinus); (u, SPlus)]) fs.

(* _nullify(expr, u, us): every symbol of us except u is replaced by 0, one after the other *)
Definition nullify (e : iex) (u : rsym) (us : list rsym) : iex :=
  fold_left (fun e o => imap (zero_out (is_rsym o)) e)
            (filter (fun r => negb (rsym_eqb r u)) us) e.

(* newexpr.subs({u_side: u, v_side: v}) *)
Definition rename2 (u v : rsym) : texpr -> texpr :=
  reside (fun f c s => if is_rsym u f c s || is_rsym v f c s then SNone else s).
Definition rename1 (v : rsym) : texpr -> texpr :=
  reside (fun f c s => if is_rsym v f c s then SNone else s).

(* dictionaries *)
Definition addo (new : iex) (old : option iex) : option iex :=
  Some (match old with Some o => IAdd new o | None => new end).

Definition key2 := (rsym * rsym)%type.
Definition key2_eqb (a b : key2) : bool := rsym_eqb (fst a) (fst b) && rsym_eqb (snd a) (snd b).

Fixpoint upd {K} (eqb : K -> K -> bool) (k : K) (new : iex) (d : list (K * iex)) : list (K * iex) :=
  match d with
  | [] => [(k, new)]
  | (k', o) :: r => if eqb k k' then (k', IAdd new o) :: r else (k', o) :: upd eqb k new r
  end.

Fixpoint lookup {K} (eqb : K -> K -> bool) (k : K) (d : list (K * iex)) : option iex :=
  match d with
  | [] => None
  | (k', o) :: r => if eqb k k' then Some o else lookup eqb k r
  end.

Record pieces := {
  bnd_minus : option iex;                (* bnd_expressions[interface.minus] *)
  bnd_plus : option iex;                 (* bnd_expressions[interface.plus]  *)
  ints : list (key2 * iex)               (* int_expressions[(trial symbol, test symbol)] *)
}.

Definition no_pieces : pieces := {| bnd_minus := None; bnd_plus := None; ints := [] |}.

(* one round (u, v) of the double loop of the bilinear branch *)
Definition step_bil (e : iex) (tr te : list rsym) (a : pieces) (u v : string) : pieces :=
  let um := (u, SMinus) in let up := (u, SPlus) in
  let vm := (v, SMinus) in let vp := (v, SPlus) in
  (* minus face *)
  let n1 := imap (rename2 um vm) (nullify (nullify e um tr) vm te) in
  let a := if zerob n1 then a
           else {| bnd_minus := addo n1 (bnd_minus a); bnd_plus := bnd_plus a; ints := ints a |} in
  (* plus face, normal reversed *)
  let n2 := imap flipn (imap (rename2 up vp) (nullify (nullify e up tr) vp te)) in
  let a := if zerob n2 then a
           else {| bnd_minus := bnd_minus a; bnd_plus := addo n2 (bnd_plus a); ints := ints a |} in
  (* trial on the minus side, test on the plus side *)
  let n3 := nullify (nullify e um tr) vp te in
  let a := if zerob n3 then a
           else {| bnd_minus := bnd_minus a; bnd_plus := bnd_plus a; ints := upd key2_eqb (um, vp) n3 (ints a) |} in
  (* trial on the plus side, test on the minus side *)
  let n4 := nullify (nullify e up tr) vm te in
  if zerob n4 then a
  else {| bnd_minus := bnd_minus a; bnd_plus := bnd_plus a; ints := upd key2_eqb (up, vm) n4 (ints a) |}.

Definition split_bil (c : cfg) (trials tests : list string) (e0 : iex) : pieces :=
  let e := expand c e0 in
  let tr := rs_of trials in
  let te := rs_of tests in
  fold_left (fun a u => fold_left (fun a v => step_bil e tr te a u v) tests a) trials no_pieces.

(* one round of the loop of the linear branch (no interface kernels) *)
Definition step_lin (c : cfg) (e : iex) (te : list rsym) (a : pieces) (v : string) : pieces :=
  let vm := (v, SMinus) in let vp := (v, SPlus) in
  let n1 := imap (rename1 vm) (nullify e vm te) in
  let a := if zerob n1 then a
           else {| bnd_minus := addo n1 (bnd_minus a); bnd_plus := bnd_plus a; ints := ints a |} in
  let n2 := imap (rename1 vp) (nullify e vp te) in
  let n2 := if lin_flip c then imap flipn n2 else n2 in
  if zerob n2 then a
  else {| bnd_minus := bnd_minus a; bnd_plus := addo n2 (bnd_plus a); ints := ints a |}.

Definition split_lin (c : cfg) (tests : list string) (e0 : iex) : pieces :=
  let e := expand c e0 in
  let te := rs_of tests in
  fold_left (fun a v => step_lin c e te a v) tests no_pieces.

(* trials = None for a linear form *)
Definition split (c : cfg) (trials : option (list string)) (tests : list string) (e0 : iex) : pieces :=
  match trials with
  | Some tr => split_bil c tr tests e0
  | None => split_lin c tests e0
  end.

(* ------------------------------------------------------------------ the interface loop of TerminalExpr.eval *)
Definition face := string.                                     (* a patch face, e.g. "B:0:-1" *)
Record iface := { iname : string; fminus : face; fplus : face }.

Definition key3 := (string * key2)%type.                        (* (interface, trial symbol, test symbol) *)
Definition key3_eqb (a b : key3) : bool := String.eqb (fst a) (fst b) && key2_eqb (snd a) (snd b).

Record kernels := {
  k_bnd : list (face * iex);             (* d_expr restricted to faces *)
  k_int : list (key3 * iex)              (* d_int *)
}.

(* d_expr[d] += a  for every integral a over the interface d *)
Fixpoint ginsert (i : iface) (e : iex) (d : list (string * (iface * iex))) : list (string * (iface * iex)) :=
  match d with
  | [] => [(iname i, (i, e))]
  | (n, (i', o)) :: r => if String.eqb (iname i) n then (n, (i', IAdd o e)) :: r
                          else (n, (i', o)) :: ginsert i e r
  end.

Fixpoint group (terms : list (iface * iex)) (d : list (string * (iface * iex))) : list (string * (iface * iex)) :=
  match terms with
  | [] => d
  | (i, e) :: r => group r (ginsert i e d)
  end.

Definition add_ints (n : string) (l : list (key2 * iex)) (d : list (key3 * iex)) : list (key3 * iex) :=
  fold_left (fun d ke => upd key3_eqb (n, fst ke) (snd ke) d) l d.

Definition add_bnd (f : face) (o : option iex) (d : list (face * iex)) : list (face * iex) :=
  match o with Some e => upd String.eqb f e d | None => d end.

Definition lower_form (c : cfg) (trials : option (list string)) (tests : list string)
           (terms : list (iface * iex)) : kernels :=
  fold_left (fun k g =>
               let i := fst (snd g) in
               let p := split c trials tests (snd (snd g)) in
               {| k_bnd := add_bnd (fplus i) (bnd_plus p) (add_bnd (fminus i) (bnd_minus p) (k_bnd k));
                  k_int := add_ints (iname i) (ints p) (k_int k) |})
            (group terms []) {| k_bnd := []; k_int := [] |}.

(* ------------------------------------------------------------------ _to_matrix_form *)
(* on a Boundary every minus / plus is removed first *)
Definition strip : texpr -> texpr := reside (fun _ _ _ => SNone).

(* the boundary kernel handed on: only minus(..) / plus(..) atoms are removed, an Average(..) node
   that is still there keeps its argument *)
Definition bnd_kernel (o : option iex) : texpr :=
  match o with Some e => iden (imap strip e) | None => TZ 0 end.

Definition comp := (string * nat)%type.                         (* scalar function: (u, 0); component i of F: (F, i+1) *)
Definition comp_eqb (a b : comp) : bool := String.eqb (fst a) (fst b) && Nat.eqb (snd a) (snd b).
Definition is_comp (k : comp) : fpred := fun f c _ => String.eqb f (fst k) && Nat.eqb c (snd k).

Definition others_zero (cs : list comp) (k : comp) (t : texpr) : texpr :=
  fold_left (fun t o => zero_out (is_comp o) t) (filter (fun x => negb (comp_eqb x k)) cs) t.

(* M[i][j] = expr.subs({other tests: 0}).subs({other trials: 0}) *)
Definition entry (trials tests : list comp) (ti tj : comp) (t : texpr) : texpr :=
  others_zero trials tj (others_zero tests ti t).
Definition entry_lin (tests : list comp) (ti : comp) (t : texpr) : texpr := others_zero tests ti t.

(* ------------------------------------------------------------------ the specification side *)
(* piece s t = the integrand with the trial functions' other-side restrictions and the test
   functions' other-side restrictions set to 0 *)
Definition mem (s : string) (l : list string) : bool := existsb (String.eqb s) l.
Definition other (s : side) : side := match s with SMinus => SPlus | SPlus => SMinus | SNone => SNone end.

Definition on_side (names : list string) (s : side) : fpred := fun f _ s' => mem f names && side_eqb s s'.

Definition piece (trials tests : list string) (s t : side) (E : texpr) : texpr :=
  zero_out (on_side tests (other t)) (zero_out (on_side trials (other s)) E).
Definition piece_lin (tests : list string) (t : side) (E : texpr) : texpr :=
  zero_out (on_side tests (other t)) E.

(* the part of the integrand that involves only the restricted trial symbol [fst k] and the
   restricted test symbol [snd k] (product spaces: one interface kernel per such pair) *)
Definition inb (r : rsym) (l : list rsym) : bool := existsb (rsym_eqb r) l.
Definition keep_only (u : rsym) (us : list rsym) : fpred :=
  fun f _ s => inb (f, s) us && negb (rsym_eqb (f, s) u).
Definition piece_key (trials tests : list string) (k : key2) (E : texpr) : texpr :=
  zero_out (keep_only (snd k) (rs_of tests)) (zero_out (keep_only (fst k) (rs_of trials)) E).

(* linear forms over a product space: the part of the integrand that involves only the restricted
   test symbol k *)
Definition piece_lin_key (tests : list string) (k : rsym) (E : texpr) : texpr :=
  zero_out (keep_only k (rs_of tests)) E.

(* how a boundary kernel on the face of side s is read in the two-sided environment:
   every function is the restriction to that side *)
Definition unres (s0 : side) : texpr -> texpr :=
  reside (fun _ _ s => match s with SNone => s0 | _ => s end).

(* a boundary kernel on the face of the minus patch: every function is its minus restriction *)
Definition read_minus (t : texpr) : texpr := unres SMinus (strip t).
(* on the face of the plus patch: plus restrictions, and the normal of the interface is the
   reversed outward normal of that face *)
Definition read_plus (t : texpr) : texpr := flipn (unres SPlus (strip t)).
(* linear forms as found: no reversal *)
Definition read_plus_noflip (t : texpr) : texpr := unres SPlus (strip t).

Definition oiden (o : option iex) : texpr := match o with Some e => iden e | None => TZ 0 end.

(* side discipline: every field atom of t sits on side s *)
Fixpoint atoms (t : texpr) : list atom :=
  match t with
  | TZ _ | TQ _ _ => []
  | TAt a => [a]
  | TAdd a b | TSub a b | TMul a b | TDiv a b | TPowG a b => atoms a ++ atoms b
  | TOpp a | TInv a | TPowN a _ | TFn _ a => atoms a
  end.
Definition fields_on (s : side) (t : texpr) : bool :=
  forallb (fun a => match a with AFld _ _ _ s' _ => side_eqb s s' | _ => true end) (atoms t).
Definition no_unrestricted (t : texpr) : bool :=
  forallb (fun a => match a with AFld _ _ _ SNone _ => false | _ => true end) (atoms t).
(* a kernel tagged k mentions, among the trial (test) functions, only the symbol fst k (snd k) *)
Definition only_key (trials tests : list string) (k : key2) (t : texpr) : bool :=
  forallb (fun a => match a with
                    | AFld _ f _ s' _ =>
                        (negb (mem f trials) || rsym_eqb (f, s') (fst k)) && (negb (mem f tests) || rsym_eqb (f, s') (snd k))
                    | _ => true
                    end) (atoms t).
(* the arguments occur only with the sides claimed by the tag *)
Definition only_sides (trials tests : list string) (s t : side) (k : texpr) : bool :=
  forallb (fun a => match a with
                    | AFld _ f _ s' _ => (negb (mem f trials) || side_eqb s' s) && (negb (mem f tests) || side_eqb s' t)
                    | _ => true
                    end) (atoms k).

(* degree-1 syntactic criterion: t is additive and homogeneous of degree 1 in the atoms of Q *)
Definition free_of (Q : fpred) (t : texpr) : bool :=
  forallb (fun a => negb (on_fld Q a)) (atoms t).
Fixpoint lin1 (Q : fpred) (t : texpr) : bool :=
  match t with
  | TZ z => Z.eqb z 0
  | TAt a => on_fld Q a
  | TAdd a b | TSub a b => lin1 Q a && lin1 Q b
  | TOpp a => lin1 Q a
  | TMul a b => (lin1 Q a && free_of Q b) || (free_of Q a && lin1 Q b)
  | TDiv a b => lin1 Q a && free_of Q b
  | _ => false
  end.
Definition args_of (names : list string) : fpred := fun f _ _ => mem f names.
