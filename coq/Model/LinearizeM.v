(* C09 - executable definitions for the linearisation of forms (sympde.expr.expr.linearize,
   sympde.expr.equation.NewtonIteration):

     * [deriv d]: symbolic first-order derivative of a terminal expression when the atoms
       have the derivatives [d] (chain rule through functions, general powers, quotients);
       instances: [fwd] (directional derivative, atoms of the linearised fields get the
       atoms of the directions) and [pdiff a] (partial derivative with respect to one atom);
     * [gateaux]: THE SPECIFICATION  sum over the atoms D^al u of  d e / d(D^al u) * D^al du;
     * the dual numbers F[eps]/(eps^2) as an evaluation structure;
     * [model_linearize]: linearize arm by arm (substitute u + eps*du with a fresh eps, expand,
       coefficient of eps^1 / first-order series, per-integral reassembly, vanishing integrals
       skipped, reduce(add, ...) on the surviving list);
     * [model_newton]: NewtonIteration = (linearised form, negated form).

   Definitions only; proofs are in Proofs/LinearizeP.v. *)
From Coq Require Import String ZArith QArith List Bool Arith PeanoNat.
From V Require Import Core.Terminal Core.SExpr Model.LinearityM.
Import ListNotations.
Local Open Scope nat_scope.

(* ================================================================= derivatives *)
Section Deriv.
  Variable datom : atom -> texpr.

  Fixpoint deriv (t : texpr) : option texpr :=
    match t with
    | TZ _ | TQ _ _ => Some Zero
    | TAt a => Some (datom a)
    | TAdd a b => omap2 TAdd (deriv a) (deriv b)
    | TSub a b => omap2 TSub (deriv a) (deriv b)
    | TOpp a => option_map TOpp (deriv a)
    | TMul a b => omap2 (fun da db => TAdd (TMul da b) (TMul a db)) (deriv a) (deriv b)
    | TDiv a b => omap2 (fun da db => TDiv (TSub (TMul da b) (TMul a db)) (TMul b b)) (deriv a) (deriv b)
    | TInv a => option_map (fun da => TOpp (TDiv da (TMul a a))) (deriv a)
    | TPowN a n =>
        match n with
        | N0 => Some Zero
        | Npos p => option_map (fun da => TMul (TMul (TZ (Zpos p)) (TPowN a (Pos.pred_N p))) da) (deriv a)
        end
    | TFn f a =>
        match deriv a with
        | None => None
        | Some da =>
            match f with
            | Fsin => Some (TMul (TFn Fcos a) da)
            | Fcos => Some (TOpp (TMul (TFn Fsin a) da))
            | Ftan => Some (TMul (TAdd One (TMul (TFn Ftan a) (TFn Ftan a))) da)
            | Fexp => Some (TMul (TFn Fexp a) da)
            | Flog => Some (TDiv da a)
            | Fsqrt => Some (TDiv da (TMul (TZ 2) (TFn Fsqrt a)))
            | _ => None
            end
        end
    | TPowG b e =>
        omap2 (fun db de => TMul (TPowG b e) (TAdd (TMul de (TFn Flog b)) (TDiv (TMul e db) b)))
              (deriv b) (deriv e)
    end.
End Deriv.

(* which field is varied in which direction: (u, du) pairs *)
Definition dirmap := list (string * string).

Fixpoint dlookup (s : dirmap) (f : string) : option string :=
  match s with
  | [] => None
  | (u, du) :: r => if String.eqb f u then Some du else dlookup r f
  end.

Definition dir_atom (s : dirmap) (a : atom) : texpr :=
  match a with
  | AFld lg f c sd al => match dlookup s f with Some df => TAt (AFld lg df c sd al) | None => Zero end
  | _ => Zero
  end.

(* directional derivative of e at u in the direction du (forward mode) *)
Definition fwd (s : dirmap) : texpr -> option texpr := deriv (dir_atom s).

(* partial derivative with respect to one atom, all atoms being independent variables *)
Definition pdiff (a : atom) : texpr -> option texpr :=
  deriv (fun b => if atom_eqb a b then One else Zero).

Fixpoint atoms_of (t : texpr) : list atom :=
  match t with
  | TZ _ | TQ _ _ => []
  | TAt a => [a]
  | TAdd a b | TSub a b | TMul a b | TDiv a b | TPowG a b => atoms_of a ++ atoms_of b
  | TOpp a | TInv a | TPowN a _ | TFn _ a => atoms_of a
  end.

Fixpoint adedup (l : list atom) : list atom :=
  match l with
  | [] => []
  | x :: r => let r' := adedup r in if existsb (atom_eqb x) r' then r' else x :: r'
  end.

Definition varied (s : dirmap) (a : atom) : bool :=
  match a with AFld _ f _ _ _ => match dlookup s f with Some _ => true | None => false end | _ => false end.

(* the atoms D^al u of the varied fields that occur in e *)
Definition field_atoms (s : dirmap) (t : texpr) : list atom := adedup (filter (varied s) (atoms_of t)).

Fixpoint osum (l : list (option texpr)) : option texpr :=
  match l with
  | [] => Some Zero
  | x :: r => omap2 TAdd x (osum r)
  end.

(* THE SPECIFICATION:  sum_a  d e / d a  *  (direction atom of a) *)
Definition gateaux (s : dirmap) (e : texpr) : option texpr :=
  osum (map (fun a => option_map (fun d => TMul d (dir_atom s a)) (pdiff a e)) (field_atoms s e)).

(* ================================================================= dual numbers *)
Section Dual.
  Variable F : Type.
  Variables (f0 f1 : F) (fadd fmul fsub : F -> F -> F) (fopp : F -> F) (fdiv : F -> F -> F) (finv : F -> F).
  Variable phiZ : Z -> F.
  Variable E : fname -> F -> F.
  Variable E1 : fname -> F -> F.        (* the derivative of each function symbol *)
  Variable P : F -> F -> F.

  Definition dual := (F * F)%type.
  Definition dzero : dual := (f0, f0).
  Definition done : dual := (f1, f0).
  Definition deps : dual := (f0, f1).
  Definition dadd (x y : dual) : dual := (fadd (fst x) (fst y), fadd (snd x) (snd y)).
  Definition dsub (x y : dual) : dual := (fsub (fst x) (fst y), fsub (snd x) (snd y)).
  Definition dopp (x : dual) : dual := (fopp (fst x), fopp (snd x)).
  Definition dmul (x y : dual) : dual :=
    (fmul (fst x) (fst y), fadd (fmul (snd x) (fst y)) (fmul (fst x) (snd y))).
  (* 1/(a + eps a') = 1/a - eps a'/a^2 *)
  Definition dinv (x : dual) : dual := (finv (fst x), fopp (fdiv (snd x) (fmul (fst x) (fst x)))).
  Definition ddiv (x y : dual) : dual := dmul x (dinv y).
  Definition dphi (z : Z) : dual := (phiZ z, f0).
  (* f(a + eps a') = f(a) + eps f'(a) a' *)
  Definition dE (f : fname) (x : dual) : dual := (E f (fst x), fmul (E1 f (fst x)) (snd x)).
  (* (b + eps b')^(e + eps e') = b^e + eps b^e (e' log b + e b'/b) *)
  Definition dP (b e : dual) : dual :=
    (P (fst b) (fst e),
     fmul (P (fst b) (fst e)) (fadd (fmul (snd e) (E Flog (fst b))) (fdiv (fmul (fst e) (snd b)) (fst b)))).

  Definition dvev (rho : atom -> dual) (t : texpr) : dual :=
    vev dual done dadd dmul dsub dopp ddiv dinv dphi dE dP rho t.
End Dual.

(* ================================================================= linearize *)
(* substitute  u -> u + eps * du  (on the lowered integrand: every atom of a varied field) *)
Definition eps_atom (eps : string) : texpr := TAt (AConst eps).

Fixpoint subst_eps (eps : string) (s : dirmap) (t : texpr) : texpr :=
  match t with
  | TZ _ | TQ _ _ => t
  | TAt a => if varied s a then TAdd (TAt a) (TMul (eps_atom eps) (dir_atom s a)) else t
  | TAdd a b => TAdd (subst_eps eps s a) (subst_eps eps s b)
  | TSub a b => TSub (subst_eps eps s a) (subst_eps eps s b)
  | TMul a b => TMul (subst_eps eps s a) (subst_eps eps s b)
  | TDiv a b => TDiv (subst_eps eps s a) (subst_eps eps s b)
  | TOpp a => TOpp (subst_eps eps s a)
  | TInv a => TInv (subst_eps eps s a)
  | TPowN a n => TPowN (subst_eps eps s a) n
  | TFn f a => TFn f (subst_eps eps s a)
  | TPowG b e => TPowG (subst_eps eps s b) (subst_eps eps s e)
  end.

(* eps := 0, with 0 * x = 0 and x + 0 = x evaluated (as sympy's subs does), so that
   (u + eps*du)[eps := 0] is u again *)
Definition tz (t : texpr) : bool := match t with TZ Z0 => true | _ => false end.
Definition mk_add (a b : texpr) : texpr := if tz b then a else if tz a then b else TAdd a b.
Definition mk_mul (a b : texpr) : texpr := if tz a || tz b then Zero else TMul a b.

Fixpoint subst0 (eps : string) (t : texpr) : texpr :=
  match t with
  | TZ _ | TQ _ _ => t
  | TAt (AConst n) => if String.eqb n eps then Zero else t
  | TAt _ => t
  | TAdd a b => mk_add (subst0 eps a) (subst0 eps b)
  | TSub a b => TSub (subst0 eps a) (subst0 eps b)
  | TMul a b => mk_mul (subst0 eps a) (subst0 eps b)
  | TDiv a b => TDiv (subst0 eps a) (subst0 eps b)
  | TOpp a => TOpp (subst0 eps a)
  | TInv a => TInv (subst0 eps a)
  | TPowN a n => TPowN (subst0 eps a) n
  | TFn f a => TFn f (subst0 eps a)
  | TPowG b e => TPowG (subst0 eps b) (subst0 eps e)
  end.

Fixpoint has_const (eps : string) (t : texpr) : bool :=
  match t with
  | TZ _ | TQ _ _ => false
  | TAt (AConst n) => String.eqb n eps
  | TAt _ => false
  | TAdd a b | TSub a b | TMul a b | TDiv a b | TPowG a b => has_const eps a || has_const eps b
  | TOpp a | TInv a | TPowN a _ | TFn _ a => has_const eps a
  end.

(* --- general arm: ((g1 - g0)/eps).series(eps, 0, 2).subs(eps, 0) = d g1 / d eps at eps = 0 *)
Definition lin_series (eps : string) (s : dirmap) (e : texpr) : option texpr :=
  option_map (subst0 eps) (pdiff (AConst eps) (subst_eps eps s e)).

(* --- polynomial arm: expand, keep the monomials of degree one in eps, drop eps *)
(* [bs] marks the positions of the key eps in the table *)
Fixpoint emask (bs : list bool) (m : mono) : mono :=
  match bs, m with
  | b :: bs', e :: m' => (if b then e else 0) :: emask bs' m'
  | _, _ => []
  end.
Fixpoint strip (bs : list bool) (m : mono) : mono :=
  match bs, m with
  | b :: bs', e :: m' => (if b then 0 else e) :: strip bs' m'
  | _, _ => []
  end.
Definition edeg (bs : list bool) (m : mono) : nat := msum (emask bs m).

Definition eps_coeff1 (bs : list bool) (p : poly) : poly :=
  map (fun cm => (fst cm, strip bs (snd cm))) (filter (fun cm => Nat.eqb (edeg bs (snd cm)) 1) p).

Definition qtexpr (q : Q) : texpr :=
  if Pos.eqb (Qden q) 1 then TZ (Qnum q) else TQ (Qnum q) (Qden q).

Fixpoint mono_texpr (tb : list texpr) (m : mono) : texpr :=
  match tb, m with
  | k :: tb', e :: m' => TMul (TPowN k (N.of_nat e)) (mono_texpr tb' m')
  | _, _ => One
  end.

Fixpoint poly_texpr (tb : list texpr) (p : poly) : texpr :=
  match p with
  | [] => Zero
  | (c, m) :: r => TAdd (TMul (qtexpr c) (mono_texpr tb m)) (poly_texpr tb r)
  end.

(* the polynomial fragment: eps occurs in no opaque key other than eps itself *)
Definition poly_guard (eps : string) (tb : list texpr) : bool :=
  forallb (fun k => texpr_eqb (eps_atom eps) k || negb (has_const eps k)) tb.

Definition lin_poly (eps : string) (s : dirmap) (e : texpr) : option texpr :=
  let e1 := subst_eps eps s e in
  let tb := table e1 in
  if poly_guard eps tb
  then Some (poly_texpr tb (eps_coeff1 (map (texpr_eqb (eps_atom eps)) tb) (expand tb e1)))
  else None.

(* linearize (since f6a20ce): dg_du = g1.diff(eps).subs(eps, 0) -- the derivative arm only.  [lin_poly] (expansion and
   eps^1 coefficient, what the series-based code computed on polynomials) is kept as a proved-equal alternative. *)
Definition lin_integrand (eps : string) (s : dirmap) (e : texpr) : option texpr := lin_series eps s e.

(* "if dg_du:" - the expression is not the zero expression (after expansion) *)
Definition is_zero_expr (t : texpr) : bool := pzero (expand (table t) t).

Definition region := nat.                          (* 0 = domain, 1 = boundary, ... *)
Definition form := list (region * texpr).

Inductive lin_result :=
| LOk (f : form)                (* the bilinear expression: one integrand per surviving integral; [] = the zero form *)
| LEmptyReduce                  (* reduce(add, []) : TypeError -- only in the code before 910ffef *)
| LUnsupported.                 (* outside the model *)

Fixpoint lin_parts (eps : string) (s : dirmap) (f : form) : option form :=
  match f with
  | [] => Some []
  | (r, e) :: rest =>
      match lin_integrand eps s e, lin_parts eps s rest with
      | Some d, Some rest' => Some (if is_zero_expr d then rest' else (r, d) :: rest')
      | _, _ => None
      end
  end.

(* reduce(add, new_integrals, S.Zero); BilinearForm(..., 0) is the number 0 = the zero form (since 910ffef) *)
Definition model_linearize (eps : string) (s : dirmap) (f : form) : lin_result :=
  match lin_parts eps s f with
  | None => LUnsupported
  | Some parts => LOk parts
  end.

(* the code before 910ffef: reduce(add, new_integrals) without initial value *)
Definition model_linearize_before_910ffef (eps : string) (s : dirmap) (f : form) : lin_result :=
  match lin_parts eps s f with
  | None => LUnsupported
  | Some [] => LEmptyReduce
  | Some parts => LOk parts
  end.

(* NewtonIteration(form, u): a = linearize(form, u); trials, tests = a.variables; rhs = LinearForm(tests, -form.expr).
   The zero form is the number 0: no equation is built (today through AttributeError on `a.variables`). *)
Inductive newton_result :=
| NOk (lhs rhs : form)
| NZeroFormNoEquation
| NUnsupported.

Definition model_newton (eps : string) (s : dirmap) (f : form) : newton_result :=
  match model_linearize eps s f with
  | LOk [] => NZeroFormNoEquation
  | LOk parts => NOk parts (map (fun re => (fst re, TOpp (snd re))) f)
  | _ => NUnsupported
  end.

(* the specification at form level: one Gateaux derivative per integral *)
Fixpoint gateaux_form (s : dirmap) (f : form) : option form :=
  match f with
  | [] => Some []
  | (r, e) :: rest =>
      match gateaux s e, gateaux_form s rest with
      | Some d, Some rest' => Some ((r, d) :: rest')
      | _, _ => None
      end
  end.
