(* Executable model of   TerminalExpr(LogicalExpr(e, D), D.logical_domain)   (sympde/topology/mapping.py
   LogicalExpr.eval + PullBack + Covariant, sympde/expr/evaluation.py TerminalExpr.eval for the symbolic
   Jacobian / inverse / transpose / determinant / trace), arm for arm, for a domain D = M(logical domain) of
   dimension d with a mapping named m (on an interface of a multi-patch domain: the patch of side sd with ITS
   mapping m, see Model/LogicalIfM.v).  Input: the constructed sympde expression as a tree [lx]; output: a
   tensor of terminal expressions over LOGICAL atoms (AFld true .. = the logical unknowns and their dx1..dx3
   derivatives, AMap m i al = logical derivatives of the mapping components, ACoord true i, constants).
   The kind -> formula table of PullBack.__new__ and the LogicalGrad/Curl/Div_kd tables come from Gen/PullBack.v
   (regenerated from /repo on every run).  None = the code refuses / is not modelled.  No proofs here. *)
From Coq Require Import String ZArith List Bool Arith.
From V Require Import Core.Terminal Core.Classical Gen.PullBack.
Import ListNotations.

Inductive lx :=
| LNum (p : Z) (q : positive)
| LConst (n : string)
| LCoord (i : nat)                          (* physical coordinate x, y, z *)
| LSF (f : string) (k : kind)               (* scalar function of a space of kind k on the mapped domain *)
| LVF (f : string) (k : kind)               (* vector function *)
| LComp (f : string) (k : kind) (i : nat)   (* F[i] *)
| LAdd (l : list lx)
| LMul (l : list lx)
| LPow (b e : lx)
| LFn (f : fname) (a : lx)
| LGrad (a : lx) | LCurl (a : lx) | LDiv (a : lx) | LLaplace (a : lx)
| LDot (a b : lx) | LInner (a b : lx) | LCross (a b : lx)
| LOther (name : string) (l : list lx)      (* rot, hessian, bracket, convect, outer: refused / not lowered *)
| LD (i : nat) (a : lx)                     (* dx, dy, dz *)
| LMat (rows : list (list lx)).

(* ------------------------------------------------------------------ tensors of terminal expressions *)
Definition tmap (f : texpr -> texpr) (t : tensor) : tensor :=
  match t with
  | Sc x => Sc (f x)
  | Vec l => Vec (map f l)
  | Mat A => Mat (map (map f) A)
  end.

Fixpoint zipadd (a b : list texpr) : option (list texpr) :=
  match a, b with
  | [], [] => Some []
  | x :: r, y :: s => option_map (cons (TAdd x y)) (zipadd r s)
  | _, _ => None
  end.

Fixpoint zipadd2 (A B : list (list texpr)) : option (list (list texpr)) :=
  match A, B with
  | [], [] => Some []
  | x :: r, y :: s => match zipadd x y, zipadd2 r s with Some z, Some t => Some (z :: t) | _, _ => None end
  | _, _ => None
  end.

Definition t_add (a b : tensor) : option tensor :=
  match a, b with
  | Sc x, Sc y => Some (Sc (TAdd x y))
  | Vec l, Vec m => option_map Vec (zipadd l m)
  | Mat A, Mat B => option_map Mat (zipadd2 A B)
  | _, _ => None
  end.

Definition dotl (a b : list texpr) : texpr := Classical.tsum (zipmul a b).
Definition ncols (M : list (list texpr)) : nat := match M with [] => 0 | r :: _ => length r end.
Definition col (M : list (list texpr)) (j : nat) : list texpr := map (fun r => nth j r (TZ 0)) M.
Definition transp (M : list (list texpr)) : list (list texpr) := map (col M) (seq0 (ncols M)).
Definition mat_vec (A : list (list texpr)) (v : list texpr) : list texpr := map (fun r => dotl r v) A.
Definition mat_mat (A B : list (list texpr)) : list (list texpr) :=
  map (fun r => map (fun j => dotl r (col B j)) (seq0 (ncols B))) A.

Definition t_mul (a b : tensor) : option tensor :=
  match a, b with
  | Sc x, Sc y => Some (Sc (TMul x y))
  | Sc x, t => Some (tmap (TMul x) t)
  | t, Sc y => Some (tmap (fun e => TMul e y) t)
  | Mat A, Vec v => if Nat.eqb (ncols A) (length v) then Some (Vec (mat_vec A v)) else None
  | Mat A, Mat B => if Nat.eqb (ncols A) (length B) then Some (Mat (mat_mat A B)) else None
  | _, _ => None
  end.

Definition tpowz (x : texpr) (z : Z) : texpr :=
  match z with
  | Z0 => TZ 1
  | Zpos p => TPowN x (Npos p)
  | Zneg p => TInv (TPowN x (Npos p))
  end.

Definition lnum (p : Z) (q : positive) : texpr := if Pos.eqb q 1 then TZ p else TQ p q.

(* base ** exponent as sympy stores it (cf. Core/SExpr.v sx2t) *)
Definition tpow (b e : texpr) : texpr :=
  match e with
  | TZ z => tpowz b z
  | _ => TPowG b e
  end.

Definition trace_l (A : list (list texpr)) : texpr :=
  Classical.tsum (map (fun i => nth i (nth i A []) (TZ 0)) (seq0 (length A))).

(* ------------------------------------------------------------------ predicates of LogicalExpr.eval *)
(* has(expr, (ScalarFunction, VectorFunction, DifferentialOperator, ...)) *)
Fixpoint has_fn (e : lx) : bool :=
  match e with
  | LNum _ _ | LConst _ | LCoord _ => false
  | LSF _ _ | LVF _ _ | LComp _ _ _ | LD _ _ => true
  | LAdd l | LMul l | LOther _ l => existsb has_fn l
  | LPow b x => has_fn b || has_fn x
  | LFn _ a | LGrad a | LCurl a | LDiv a | LLaplace a => has_fn a
  | LDot a b | LInner a b | LCross a b => has_fn a || has_fn b
  | LMat rows => existsb (existsb has_fn) rows
  end.

(* has(expr, DiffOperator): grad, curl, div, laplace, rot, hessian, bracket *)
Definition is_diffop_name (s : string) : bool :=
  String.eqb s "rot" || String.eqb s "hessian" || String.eqb s "bracket".

Fixpoint has_op (e : lx) : bool :=
  match e with
  | LNum _ _ | LConst _ | LCoord _ | LSF _ _ | LVF _ _ | LComp _ _ _ => false
  | LGrad _ | LCurl _ | LDiv _ | LLaplace _ => true
  | LOther n l => is_diffop_name n || existsb has_op l
  | LAdd l | LMul l => existsb has_op l
  | LPow b x => has_op b || has_op x
  | LFn _ a | LD _ a => has_op a
  | LDot a b | LInner a b | LCross a b => has_op a || has_op b
  | LMat rows => existsb (existsb has_op) rows
  end.

Section Model.
  Variable d : nat.          (* dimension of the domain *)
  Variable m : string.       (* name of the mapping *)
  Variable sd : side.        (* the side of an interface that the functions are restricted to (SNone: no interface):
                                the logical unknowns are the atoms AFld true f c sd al *)

  (* ---------------------------------------------------------------- the Jacobian and its inverse *)
  Definition unit (j : nat) : list nat := bump j [].
  Definition Mc (i : nat) : texpr := TAt (AMap m i []).                 (* mapping component M[i] *)
  Definition Jt (i j : nat) : texpr := TAt (AMap m i (unit j)).         (* J_ij = d M_i / d x_j *)

  Definition jac : list (list texpr) := map (fun i => map (fun j => Jt i j) (seq0 d)) (seq0 d).

  Definition det_t : texpr :=
    match d with
    | 1 => Jt 0 0
    | 2 => TSub (TMul (Jt 0 0) (Jt 1 1)) (TMul (Jt 0 1) (Jt 1 0))
    | 3 => TAdd (TSub (TMul (Jt 0 0) (TSub (TMul (Jt 1 1) (Jt 2 2)) (TMul (Jt 1 2) (Jt 2 1))))
                      (TMul (Jt 0 1) (TSub (TMul (Jt 1 0) (Jt 2 2)) (TMul (Jt 1 2) (Jt 2 0)))))
                (TMul (Jt 0 2) (TSub (TMul (Jt 1 0) (Jt 2 1)) (TMul (Jt 1 1) (Jt 2 0))))
    | _ => TZ 0
    end.

  (* adjugate (transposed cofactor matrix): J * adj = det * I  -- Cramer's rule *)
  Definition m2 (a b c e : texpr) : texpr := TSub (TMul a e) (TMul b c).     (* | a b ; c e | *)
  Definition adj_t : list (list texpr) :=
    match d with
    | 1 => [[TZ 1]]
    | 2 => [[Jt 1 1; TOpp (Jt 0 1)]; [TOpp (Jt 1 0); Jt 0 0]]
    | 3 => [[m2 (Jt 1 1) (Jt 1 2) (Jt 2 1) (Jt 2 2); m2 (Jt 0 2) (Jt 0 1) (Jt 2 2) (Jt 2 1); m2 (Jt 0 1) (Jt 0 2) (Jt 1 1) (Jt 1 2)];
            [m2 (Jt 1 2) (Jt 1 0) (Jt 2 2) (Jt 2 0); m2 (Jt 0 0) (Jt 0 2) (Jt 2 0) (Jt 2 2); m2 (Jt 0 2) (Jt 0 0) (Jt 1 2) (Jt 1 0)];
            [m2 (Jt 1 0) (Jt 1 1) (Jt 2 0) (Jt 2 1); m2 (Jt 0 1) (Jt 0 0) (Jt 2 1) (Jt 2 0); m2 (Jt 0 0) (Jt 0 1) (Jt 1 0) (Jt 1 1)]]
    | _ => []
    end.

  Definition jinv : list (list texpr) := map (map (fun c => TDiv c det_t)) adj_t.

  (* ---------------------------------------------------------------- symbolic matrix expressions *)
  Fixpoint meval (el : tensor) (e : mexpr) : option tensor :=
    match e with
    | MEl => Some el
    | MJ => Some (Mat jac)
    | MJinv => Some (Mat jinv)
    | MT a => match meval el a with Some (Mat A) => Some (Mat (transp A)) | _ => None end
    | MInv a => match a with MJ => Some (Mat jinv) | MJinv => Some (Mat jac) | _ => None end
    | MDet a => match a with MJ => Some (Sc det_t) | _ => None end
    | MPowZ a z => match meval el a with Some (Sc x) => Some (Sc (tpowz x z)) | _ => None end
    | MMul l =>
        (fix go (l : list mexpr) (acc : option tensor) : option tensor :=
           match l with
           | [] => acc
           | x :: r =>
               match acc, meval el x with
               | Some a, Some b => go r (t_mul a b)
               | _, _ => None
               end
           end) l (Some (Sc (TZ 1)))
    | MNum z => Some (Sc (TZ z))
    end.

  (* the logical unknown that stands for a function named f *)
  Definition el_of (f : string) (vector : bool) : tensor :=
    if vector then Vec (map (fun c => TAt (AFld true f (S c) sd [])) (seq0 d))
    else Sc (TAt (AFld true f 0 sd [])).

  (* PullBack(u, mapping).expr lowered by TerminalExpr *)
  Definition pullback (f : string) (k : kind) (vector : bool) : option tensor :=
    match pullback_formula k vector with
    | Some fm => meval (el_of f vector) fm
    | None => None
    end.

  (* ---------------------------------------------------------------- logical operators (tables of Gen/PullBack.v) *)
  Definition lcomb (row : list (Z * nat)) (t : texpr) : option texpr :=
    option_map Classical.tsum
      (sequence (map (fun ck => option_map (TMul (TZ (fst ck))) (tD true (snd ck) t)) row)).

  Definition lgrad (t : tensor) : option tensor :=
    match lgrad_table d with
    | None => None
    | Some rows =>
        match t with
        | Sc s => option_map Vec (sequence (map (fun row => lcomb row s) rows))
        | Vec l => if Nat.eqb (length l) d
                   then option_map Mat (sequence (map (fun row => sequence (map (lcomb row) l)) rows))
                   else None
        | Mat _ => None
        end
    end.

  Definition lcomb2 (l : list texpr) (row : list (Z * nat * nat)) : option texpr :=
    option_map Classical.tsum
      (sequence (map (fun ckc => match ckc with (c, k, j) =>
                        option_map (TMul (TZ c)) (tD true k (nth j l (TZ 0))) end) row)).

  Definition lcurl (l : list texpr) : option tensor :=
    match lcurl_table d with
    | None => None
    | Some rows =>
        match sequence (map (lcomb2 l) rows) with
        | Some [x] => Some (Sc x)
        | Some v => Some (Vec v)
        | None => None
        end
    end.

  Definition ldiv (l : list texpr) : option tensor :=
    match ldiv_table d with
    | None => None
    | Some row => option_map Sc (lcomb2 l row)
    end.

  (* Jacobian(M)**(-1).T * t *)
  Definition cov (t : tensor) : option tensor := t_mul (Mat (transp jinv)) t.

  Definition kind_plain (k : kind) : bool := match k with KH1 | KUndef => true | _ => false end.

  (* ---------------------------------------------------------------- function-free sub-expressions *)
  (* a function-free, operator-free scalar as TerminalExpr on the MAPPED domain sees it (coordinates x, y, z) *)
  Fixpoint phys_sc (e : lx) {struct e} : option texpr :=
    match e with
    | LNum p q => Some (lnum p q)
    | LConst n => Some (TAt (AConst n))
    | LCoord i => if Nat.ltb i d then Some (TAt (ACoord false i)) else None
    | LAdd l =>
        (fix go (l : list lx) : option texpr :=
           match l with
           | [] => None
           | [x] => phys_sc x
           | x :: r => match phys_sc x, go r with Some a, Some b => Some (TAdd a b) | _, _ => None end
           end) l
    | LMul l =>
        (fix go (l : list lx) : option texpr :=
           match l with
           | [] => None
           | [x] => phys_sc x
           | x :: r => match phys_sc x, go r with Some a, Some b => Some (TMul a b) | _, _ => None end
           end) l
    | LPow b x => match phys_sc b, phys_sc x with Some tb, Some tx => Some (tpow tb tx) | _, _ => None end
    | LFn f a => option_map (TFn f) (phys_sc a)
    | _ => None
    end.

  (* x, y, z -> M[0], M[1], M[2] *)
  Fixpoint csubst (t : texpr) : texpr :=
    match t with
    | TAt (ACoord false i) => if Nat.ltb i d then Mc i else t
    | TZ _ | TQ _ _ | TAt _ => t
    | TAdd a b => TAdd (csubst a) (csubst b)
    | TSub a b => TSub (csubst a) (csubst b)
    | TMul a b => TMul (csubst a) (csubst b)
    | TDiv a b => TDiv (csubst a) (csubst b)
    | TOpp a => TOpp (csubst a)
    | TInv a => TInv (csubst a)
    | TPowN a n => TPowN (csubst a) n
    | TFn f a => TFn f (csubst a)
    | TPowG b e => TPowG (csubst b) (csubst e)
    end.

  (* ---------------------------------------------------------------- LogicalExpr.eval, then TerminalExpr *)
  Fixpoint logical (e : lx) {struct e} : option tensor :=
    (* arm 1: no function inside.  Without a DiffOperator the code substitutes x,y,z by M[0],M[1],M[2] (the
       recursion below does the same).  With a DiffOperator it returns an unevaluated LogicalExpr; TerminalExpr
       then lowers the expression on the MAPPED domain (classical derivatives in x, y, z, computed by sympy.diff)
       and LogicalExpr substitutes the coordinates: modelled for grad / laplace of an operator-free scalar (what
       the product rules of the constructors produce from coordinate-dependent coefficients). *)
    if negb (has_fn e) && has_op e then
      match e with
      | LGrad a =>
          match phys_sc a with
          | Some pa => option_map (fun l => Vec (map csubst l)) (sequence (map (fun i => tD false i pa) (seq0 d)))
          | None => None
          end
      | LLaplace a =>
          match phys_sc a with
          | Some pa => option_map (fun l => Sc (csubst (Classical.tsum l)))
                         (sequence (map (fun i => dd2 false i i pa) (seq0 d)))
          | None => None
          end
      | _ => None
      end
    else
    match e with
    | LNum p q => Some (Sc (lnum p q))
    | LConst n => Some (Sc (TAt (AConst n)))
    | LCoord i => if Nat.ltb i d then Some (Sc (Mc i)) else None
    | LAdd l =>
        (fix go (l : list lx) : option tensor :=
           match l with
           | [] => None
           | [x] => logical x
           | x :: r => match logical x, go r with Some a, Some b => t_add a b | _, _ => None end
           end) l
    | LMul l =>
        (fix go (l : list lx) : option tensor :=
           match l with
           | [] => None
           | [x] => logical x
           | x :: r => match logical x, go r with Some a, Some b => t_mul a b | _, _ => None end
           end) l
    | LComp f k i =>                               (* IndexedVectorFunction: TerminalExpr(PullBack)[i] *)
        match pullback f k true with
        | Some (Vec l) => option_map Sc (nth_error l i)
        | _ => None
        end
    | LSF f k => pullback f k false
    | LVF f k => pullback f k true
    | LGrad a =>                                   (* Jacobian**(-1).T * grad(arg) *)
        match logical a with
        | Some ta => match lgrad ta with Some g => cov g | None => None end
        | None => None
        end
    | LCurl a =>
        match a with
        | LVF f KHcurl =>                          (* PullBack of kind Hcurl: Piola *)
            match lcurl (map (fun c => TAt (AFld true f (S c) sd [])) (seq0 d)) with
            | Some c =>
                if Nat.eqb d 2 then t_mul (Sc (TInv det_t)) c                      (* (1/J.det())*curl *)
                else match t_mul (Sc (TInv det_t)) (Mat jac) with                  (* (J/J.det())*curl *)
                     | Some jd => t_mul jd c
                     | None => None
                     end
            | None => None
            end
        | _ => None                                (* NotImplementedError *)
        end
    | LDiv a =>
        match a with
        | LVF f k =>
            let el := map (fun c => TAt (AFld true f (S c) sd [])) (seq0 d) in
            match k with
            | KHdiv => match ldiv el with Some dv => t_mul (Sc (TInv det_t)) dv | None => None end
            | _ => (* SymbolicTrace(Jacobian**(-1).T * grad(arg.test)) : uses the logical unknown itself *)
                match lgrad (Vec el) with
                | Some g => match cov g with Some (Mat A) => Some (Sc (trace_l A)) | _ => None end
                | None => None
                end
            end
        | _ => None                                (* NotImplementedError *)
        end
    | LLaplace a =>                                (* tr(Jinv.T * grad(Jinv.T * grad(arg))) *)
        match logical a with
        | Some (Sc s) =>
            match lgrad (Sc s) with
            | Some g =>
                match cov g with
                | Some v =>
                    match lgrad v with
                    | Some g2 => match cov g2 with Some (Mat A) => Some (Sc (trace_l A)) | _ => None end
                    | None => None
                    end
                | None => None
                end
            | None => None
            end
        | _ => None
        end
    | LDot a b =>
        match logical a, logical b with
        | Some (Vec u), Some (Vec v) => if Nat.eqb (length u) (length v) then Some (dot_v u v) else None
        | _, _ => None
        end
    | LInner a b =>
        if Nat.eqb d 1 then None else                (* there is no Inner_1d *)
        match logical a, logical b with
        | Some (Vec u), Some (Vec v) => if Nat.eqb (length u) (length v) then Some (dot_v u v) else None
        | Some (Mat A), Some (Mat B) => Some (inner_m A B)
        | _, _ => None
        end
    | LCross a b =>
        match logical a, logical b with
        | Some (Vec u), Some (Vec v) => cross_v d u v
        | _, _ => None
        end
    | LOther _ _ => None                           (* NotImplementedError / no *_kd class *)
    | LMat rows =>
        option_map Mat
          ((fix gor (rows : list (list lx)) : option (list (list texpr)) :=
              match rows with
              | [] => Some []
              | row :: rr =>
                  match (fix goc (row : list lx) : option (list texpr) :=
                           match row with
                           | [] => Some []
                           | x :: r => match logical x, goc r with
                                       | Some (Sc t), Some ts => Some (t :: ts)
                                       | _, _ => None
                                       end
                           end) row, gor rr with
                  | Some r1, Some r2 => Some (r1 :: r2)
                  | _, _ => None
                  end
              end) rows)
    | LD i a =>                                    (* Covariant(mapping, LogicalGrad(arg))[i]; the argument is
                                                      lowered by TerminalExpr first when it carries det(Jacobian)
                                                      (L2 pull-back u^/det J, repair 81b21e6) *)
        match logical a with
        | Some (Sc s) =>
            match lgrad (Sc s) with
            | Some (Vec g) => option_map Sc (nth_error (mat_vec (transp jinv) g) i)
            | _ => None
            end
        | _ => None
        end
    | LPow b x =>
        match logical b, logical x with
        | Some (Sc tb), Some (Sc tx) => Some (Sc (tpow tb tx))
        | _, _ => None
        end
    | LFn f a =>
        match logical a with
        | Some (Sc t) => Some (Sc (TFn f t))
        | _ => None
        end
    end.
End Model.

(* ---------------------------------------------------------------- analytical mappings: M[i] := expression *)
(* iterated logical derivative following the multi-index (same order as the semantics iterD) *)
Fixpoint tDn (n : nat) (i : nat) (t : texpr) : option texpr :=
  match n with 0 => Some t | S k => match tDn k i t with Some u => tD true i u | None => None end end.

Fixpoint tDal (i : nat) (al : list nat) (t : texpr) : option texpr :=
  match al with
  | [] => Some t
  | a :: r => match tDal (S i) r t with Some u => tDn a i u | None => None end
  end.

(* replace every AMap m i al by the al-th derivative of the i-th coordinate expression *)
Fixpoint msubst (m : string) (ex : list texpr) (t : texpr) : option texpr :=
  match t with
  | TZ _ | TQ _ _ => Some t
  | TAt (AMap m' i al) =>
      if String.eqb m m' then match nth_error ex i with Some x => tDal 0 al x | None => None end else Some t
  | TAt _ => Some t
  | TAdd a b => omap2 TAdd (msubst m ex a) (msubst m ex b)
  | TSub a b => omap2 TSub (msubst m ex a) (msubst m ex b)
  | TMul a b => omap2 TMul (msubst m ex a) (msubst m ex b)
  | TDiv a b => omap2 TDiv (msubst m ex a) (msubst m ex b)
  | TOpp a => option_map TOpp (msubst m ex a)
  | TInv a => option_map TInv (msubst m ex a)
  | TPowN a n => option_map (fun x => TPowN x n) (msubst m ex a)
  | TFn f a => option_map (TFn f) (msubst m ex a)
  | TPowG b e => omap2 TPowG (msubst m ex b) (msubst m ex e)
  end.

Definition msubst_tens (m : string) (ex : list texpr) (t : tensor) : option tensor :=
  match t with
  | Sc x => option_map Sc (msubst m ex x)
  | Vec l => option_map Vec (sequence (map (msubst m ex) l))
  | Mat A => option_map Mat (sequence (map (fun r => sequence (map (msubst m ex) r)) A))
  end.

(* ---------------------------------------------------------------- arguments of opaque functions *)
(* The verified checker identifies opaque sub-terms (elementary functions, general powers) syntactically.  sympy may
   have re-ordered or re-arranged their arguments; [canon] replaces an argument that the checker proves equal to an
   earlier one (a representative in [reps]) by that representative, so that f(a) and f(a') become the same atom.
   Soundness: Proofs/LogicalP.v canon_ev. *)
Fixpoint find_rep (eq : texpr -> texpr -> bool) (reps : list texpr) (a : texpr) : texpr :=
  match reps with
  | [] => a
  | r :: rest => if eq a r then r else find_rep eq rest a
  end.

Fixpoint canon (eq : texpr -> texpr -> bool) (reps : list texpr) (t : texpr) : texpr :=
  match t with
  | TZ _ | TQ _ _ | TAt _ => t
  | TAdd a b => TAdd (canon eq reps a) (canon eq reps b)
  | TSub a b => TSub (canon eq reps a) (canon eq reps b)
  | TMul a b => TMul (canon eq reps a) (canon eq reps b)
  | TDiv a b => TDiv (canon eq reps a) (canon eq reps b)
  | TOpp a => TOpp (canon eq reps a)
  | TInv a => TInv (canon eq reps a)
  | TPowN a n => TPowN (canon eq reps a) n
  | TFn f a => TFn f (find_rep eq reps (canon eq reps a))
  | TPowG b e => TPowG (find_rep eq reps (canon eq reps b)) (find_rep eq reps (canon eq reps e))
  end.

(* arguments of the opaque functions of a term, innermost first *)
Fixpoint fn_args (t : texpr) : list texpr :=
  match t with
  | TZ _ | TQ _ _ | TAt _ => []
  | TAdd a b | TSub a b | TMul a b | TDiv a b => fn_args a ++ fn_args b
  | TOpp a | TInv a | TPowN a _ => fn_args a
  | TFn _ a => fn_args a ++ [a]
  | TPowG b e => fn_args b ++ fn_args e ++ [b; e]
  end.

(* representatives: an argument joins the list unless it is proved equal to one already there *)
Fixpoint build_reps (eq : texpr -> texpr -> bool) (reps : list texpr) (args : list texpr) : list texpr :=
  match args with
  | [] => reps
  | a :: r =>
      let a' := canon eq reps a in
      if existsb (eq a') reps then build_reps eq reps r else build_reps eq (reps ++ [a']) r
  end.

Definition tequiv_fn (hs : list (texpr * texpr)) (a b : texpr) : bool :=
  if tequiv_hyps hs a b then true else
  let eq := tequiv_hyps hs in
  let reps := build_reps eq [] (fn_args a ++ fn_args b) in
  match reps with
  | [] => false
  | _ =>
      (* the rewriting hypotheses are canonicalised with the same representatives (their value is unchanged) *)
      let hs' := map (fun h => (canon eq reps (fst h), canon eq reps (snd h))) hs in
      tequiv_hyps hs' (canon eq reps a) (canon eq reps b)
  end.

(* comparison of tensors with rewriting hypotheses (trigonometric relations) *)
Definition tens_equiv_hyps (hs : list (texpr * texpr)) (a b : tensor) : bool :=
  let eq := tequiv_fn hs in
  match a, b with
  | Sc x, Sc y => eq x y
  | Vec l, Vec m => all2 eq l m
  | Mat A, Mat B => all2 (all2 eq) A B
  | Vec l, Mat B | Mat B, Vec l =>
      all2 eq l (concat B) && (Nat.eqb (length B) 1 || forallb (fun r => Nat.eqb (length r) 1) B)
  | Sc x, Mat [[y]] | Mat [[y]], Sc x => eq x y
  | Sc x, Vec [y] | Vec [y], Sc x => eq x y
  | _, _ => false
  end.
