(* Executable model of the derivative-atom bookkeeping of sympde (C17):
     sympde/topology/mapping.py      SymbolicExpr.eval
     sympde/topology/derivatives.py  find_partial_derivatives, get_number_derivatives,
                                     sort_partial_derivatives, get_index_(logical_)derivatives,
                                     get_atom_(logical_)derivatives, get_index_(logical_)derivatives_atom,
                                     get_max_(logical_)partial_derivatives
   The model follows the Python code arm by arm.  No proofs here: the model still runs when a
   proof breaks. *)
From Coq Require Import String Ascii List Bool Arith PeanoNat DecimalString.
Import ListNotations.
Open Scope string_scope.

(* ------------------------------------------------------------------ terms *)
(* dx dy dz (physical, `_partial_derivatives`) and dx1 dx2 dx3 (`_logical_partial_derivatives`) *)
Inductive dop := Dx | Dy | Dz | D1 | D2 | D3.

(* what a chain of derivatives is applied to: a ScalarFunction (by name) or the component
   u[i] of a VectorFunction (IndexedVectorFunction: name of the base + index) *)
Inductive fatom := FScal (n : string) | FComp (n : string) (i : nat).

(* the optional argument F of get_max_*partial_derivatives: a function atom, or a VectorFunction *)
Inductive query := QAtom (a : fatom) | QVec (n : string).

(* One grammar for kernels and for the results of SymbolicExpr (DESIGN appendix A).
   [Chain ops a]: the operators [ops] (outermost first) applied to [a]; [Chain [] a] is the bare atom. *)
Inductive expr :=
| Num (s : string)                 (* int / Rational / Float / NumberSymbol: printed form, opaque *)
| Sym (s : string)                 (* a plain sympy Symbol or a sympde Constant *)
| Vec (n : string)                 (* a bare VectorFunction *)
| Chain (ops : list dop) (a : fatom)
| Add (l : list expr)
| Mul (l : list expr)
| Pow (b e : expr)
| Fn (f : string) (l : list expr)  (* sympy Function application: sin, cos, exp, log, Abs, ... *)
| Tup (l : list expr)              (* sympy Tuple *)
| Seq (l : list expr)              (* python list / tuple *)
| Mat (imm : bool) (rows : list (list expr)).   (* Matrix / ImmutableDenseMatrix *)

Definition chain := (list dop * fatom)%type.

Definition is_phys (o : dop) : bool := match o with Dx | Dy | Dz => true | _ => false end.
Definition is_log (o : dop) : bool := negb (is_phys o).
Definition dop_eqb (a b : dop) : bool :=
  match a, b with
  | Dx, Dx | Dy, Dy | Dz, Dz | D1, D1 | D2, D2 | D3, D3 => true
  | _, _ => false
  end.
Definition fatom_eqb (a b : fatom) : bool :=
  match a, b with
  | FScal n, FScal m => String.eqb n m
  | FComp n i, FComp m j => String.eqb n m && Nat.eqb i j
  | _, _ => false
  end.

(* ------------------------------------------------------------------ indices *)
Fixpoint count (d : dop) (ops : list dop) : nat :=
  match ops with [] => 0 | o :: r => (if dop_eqb d o then 1 else 0) + count d r end.

Definition idx3 := (nat * nat * nat)%type.
(* get_index_derivatives: {'x':.., 'y':.., 'z':..}, counted over the whole expression (preorder_traversal) *)
Definition phys_index (ops : list dop) : idx3 := (count Dx ops, count Dy ops, count Dz ops).
(* get_index_logical_derivatives: {'x1':.., 'x2':.., 'x3':..} *)
Definition log_index (ops : list dop) : idx3 := (count D1 ops, count D2 ops, count D3 ops).
(* the identity of a chain according to C17: (component, multi-index) *)
Definition multi_index (ops : list dop) : idx3 * idx3 := (phys_index ops, log_index ops).

(* ------------------------------------------------------------------ SymbolicExpr: names *)
(* python  k*n  for a string k *)
Fixpoint rep (s : string) (n : nat) : string := match n with 0 => "" | S k => s ++ rep s k end.

(* index = dict(sorted(index.items()));  for k,n in index.items(): code += k*n *)
Definition code_phys (t : idx3) : string := let '(a, b, c) := t in rep "x" a ++ rep "y" b ++ rep "z" c.
Definition code_log (t : idx3) : string := let '(a, b, c) := t in rep "x1" a ++ rep "x2" b ++ rep "x3" c.

(* '{}'.format(i) for a non-negative integer *)
Definition dec (n : nat) : string := NilEmpty.string_of_uint (Nat.to_uint n).

(* if code: name = '{name}_{code}'   (None and '' are both falsy) *)
Definition with_code (name : string) (code : option string) : string :=
  match code with
  | None => name
  | Some c => if String.eqb c "" then name else name ++ "_" ++ c
  end.

(* arms `isinstance(expr, (ScalarFunction, VectorFunction))` and `isinstance(expr, Indexed)` *)
Definition atom_name (a : fatom) (code : option string) : string :=
  match a with
  | FScal n => with_code n code
  | FComp n i => with_code (n ++ "_" ++ dec i) code
  end.

Inductive kind := KP | KL.
Definition kind_of (o : dop) : kind := if is_phys o then KP else KL.
Definition kind_eqb (a b : kind) : bool := match a, b with KP, KP | KL, KL => true | _, _ => false end.

(* cls.eval(expr, code=code) on a chain.  The arm `isinstance(expr, _partial_derivatives)` computes
     atom = get_atom_derivatives(expr)      -- strips the leading physical operators
     code = x^a y^b z^c from get_index_derivatives(expr)   -- counts dx/dy/dz in the WHOLE expr
   forgets the incoming code, and recurses on atom; the logical arm is symmetric.  [cur = Some k] means
   "inside get_atom_*: operators of kind k are being stripped"; an operator of the other kind starts the
   other arm, which overwrites the code. *)
Fixpoint chain_eval (cur : option kind) (ops : list dop) (a : fatom) (code : option string) : string :=
  match ops with
  | [] => atom_name a code
  | o :: r =>
      let k := kind_of o in
      if match cur with Some c => kind_eqb c k | None => false end
      then chain_eval cur r a code
      else chain_eval (Some k) r a
             (Some (match k with KP => code_phys (phys_index ops) | KL => code_log (log_index ops) end))
  end.

Definition chain_name (ops : list dop) (a : fatom) : string := chain_eval None ops a None.

(* SymbolicExpr.eval at code=None (the code is only ever set inside the derivative arms) *)
Fixpoint symbolic (e : expr) : expr :=
  match e with
  | Add l => Add (map symbolic l)              (* Add of [eval(a) for a in expr.args] *)
  | Mul l => Mul (map symbolic l)
  | Pow b x => Pow (symbolic b) x              (* Pow(eval(b), e): the exponent is passed through *)
  | Num s => Num s                             (* _coeffs_registery *)
  | Tup l => Tup (map symbolic l)              (* list / tuple / Tuple -> Tuple *)
  | Seq l => Tup (map symbolic l)
  | Mat imm rows => Mat imm (map (map symbolic) rows)   (* type(expr)(lines) *)
  | Vec n => Sym n                             (* VectorFunction -> Symbol(name) *)
  | Chain ops a => Sym (chain_name ops a)      (* ScalarFunction / Indexed / derivative arms *)
  | Sym s => Sym s                             (* Constant, Symbol *)
  | Fn f l => Fn f (map symbolic l)            (* type(expr) of [eval(a) for a in expr.args] *)
  end.

(* ------------------------------------------------------------------ find / sort *)
(* find_partial_derivatives *)
Fixpoint find_pd (e : expr) : list chain :=
  match e with
  | Add l => flat_map find_pd l                (* find_partial_derivatives(expr.args): the tuple arm *)
  | Mul l => flat_map find_pd l
  | Pow b _ => find_pd b                       (* base only *)
  | Tup l => flat_map find_pd l
  | Seq l => flat_map find_pd l
  | Chain (o :: r) a => [(o :: r, a)]          (* a dx/dy/dz/dx1/dx2/dx3 node *)
  | _ => []                                    (* everything else: Matrix, Function, atoms *)
  end.

(* get_number_derivatives: number of leading PHYSICAL operators *)
Fixpoint lead_phys (ops : list dop) : nat :=
  match ops with o :: r => if is_phys o then S (lead_phys r) else 0 | [] => 0 end.

(* sort_partial_derivatives: groups by get_number_derivatives (insertion order kept inside a group),
   groups from high to low *)
Definition sort_pd (l : list chain) : list chain :=
  let m := list_max (map (fun c => lead_phys (fst c)) l) in
  flat_map (fun k => filter (fun c => Nat.eqb (lead_phys (fst c)) k) l) (rev (seq 0 (S m))).

(* get_atom_derivatives / get_atom_logical_derivatives: strip the leading operators of one kind *)
Fixpoint strip_phys (ops : list dop) : list dop :=
  match ops with o :: r => if is_phys o then strip_phys r else ops | [] => [] end.
Fixpoint strip_log (ops : list dop) : list dop :=
  match ops with o :: r => if is_log o then strip_log r else ops | [] => [] end.

(* `a == atom` where a = get_atom_*derivatives(i) and atom = F *)
Definition match_q (rest : list dop) (a : fatom) (q : query) : bool :=
  match q with
  | QAtom f => match rest with [] => fatom_eqb a f | _ => false end
  | QVec _ => false      (* a VectorFunction is never the innermost argument of a chain *)
  end.

(* get_index_derivatives_atom / get_index_logical_derivatives_atom *)
Definition index_atom_phys (e : expr) (q : query) : list idx3 :=
  flat_map (fun c : chain => if match_q (strip_phys (fst c)) (snd c) q then [phys_index (fst c)] else [])
           (sort_pd (find_pd e)).
Definition index_atom_log (e : expr) (q : query) : list idx3 :=
  flat_map (fun c : chain => if match_q (strip_log (fst c)) (snd c) q then [log_index (fst c)] else [])
           (sort_pd (find_pd e)).

(* expr.atoms(ScalarFunction) + expr.atoms(VectorFunction) + expr.atoms(IndexedVectorFunction):
   every function atom occurring anywhere (preorder traversal of all args); order and repetitions
   are irrelevant for the maximum taken afterwards *)
Fixpoint atoms_of (e : expr) : list query :=
  match e with
  | Num _ | Sym _ => []
  | Vec n => [QVec n]
  | Chain _ (FScal n) => [QAtom (FScal n)]
  | Chain _ (FComp n i) => [QAtom (FComp n i); QVec n]
  | Add l | Mul l | Fn _ l | Tup l | Seq l => flat_map atoms_of l
  | Pow b x => atoms_of b ++ atoms_of x
  | Mat _ rows => flat_map (flat_map atoms_of) rows
  end.

(* d = {..:0};  for dd in indices: for k,v in dd.items(): if v > d[k]: d[k] = v *)
Definition max3 (l : list idx3) : idx3 :=
  fold_left (fun d t => let '(a, b, c) := d in let '(x, y, z) := t in (Nat.max a x, Nat.max b y, Nat.max c z))
            l (0, 0, 0).

Definition is_pyseq (e : expr) : bool := match e with Seq _ => true | _ => false end.

(* get_max_partial_derivatives(expr, F) / get_max_logical_partial_derivatives(expr, F);
   None = AttributeError (a python list/tuple has no .atoms) *)
Definition get_max_phys (e : expr) (q : option query) : option idx3 :=
  match q with
  | None => if is_pyseq e then None else Some (max3 (flat_map (index_atom_phys e) (atoms_of e)))
  | Some f => Some (max3 (index_atom_phys e f))
  end.
Definition get_max_log (e : expr) (q : option query) : option idx3 :=
  match q with
  | None => if is_pyseq e then None else Some (max3 (flat_map (index_atom_log e) (atoms_of e)))
  | Some f => Some (max3 (index_atom_log e f))
  end.

(* ------------------------------------------------------------------ the same functions with the proposed repairs *)
(* Three independent repairs of the traversal are modelled as flags, so that the check keeps following the code
   when a repair is applied to /repo (the harness reads the flags from the source text of the three functions and
   the correspondence run then ties the chosen variant to the behaviour; all flags false = the functions above):
     ea  find_partial_derivatives also enters Pow exponents, Matrix entries and the arguments of any other
         expression (elementary functions, ...)
     pe  SymbolicExpr also translates the exponent of a Pow
     vq  get_index_*_derivatives_atom accepts a VectorFunction F: the chains over its components *)
Fixpoint symbolic_g (pe : bool) (e : expr) : expr :=
  match e with
  | Add l => Add (map (symbolic_g pe) l)
  | Mul l => Mul (map (symbolic_g pe) l)
  | Pow b x => Pow (symbolic_g pe b) (if pe then symbolic_g pe x else x)
  | Num s => Num s
  | Tup l => Tup (map (symbolic_g pe) l)
  | Seq l => Tup (map (symbolic_g pe) l)
  | Mat imm rows => Mat imm (map (map (symbolic_g pe)) rows)
  | Vec n => Sym n
  | Chain ops a => Sym (chain_name ops a)
  | Sym s => Sym s
  | Fn f l => Fn f (map (symbolic_g pe) l)
  end.

Fixpoint find_pd_g (ea : bool) (e : expr) : list chain :=
  match e with
  | Add l => flat_map (find_pd_g ea) l
  | Mul l => flat_map (find_pd_g ea) l
  | Pow b x => if ea then find_pd_g ea b ++ find_pd_g ea x else find_pd_g ea b
  | Tup l => flat_map (find_pd_g ea) l
  | Seq l => flat_map (find_pd_g ea) l
  | Mat _ rows => if ea then flat_map (flat_map (find_pd_g ea)) rows else []
  | Chain (o :: r) a => [(o :: r, a)]
  | Fn _ l => if ea then flat_map (find_pd_g ea) l else []
  | _ => []
  end.

Definition match_q_g (vq : bool) (rest : list dop) (a : fatom) (q : query) : bool :=
  match q with
  | QAtom f => match rest with [] => fatom_eqb a f | _ => false end
  | QVec n => vq && match rest, a with [], FComp m _ => String.eqb m n | _, _ => false end
  end.

Definition index_atom_phys_g (ea vq : bool) (e : expr) (q : query) : list idx3 :=
  flat_map (fun c : chain => if match_q_g vq (strip_phys (fst c)) (snd c) q then [phys_index (fst c)] else [])
           (sort_pd (find_pd_g ea e)).
Definition index_atom_log_g (ea vq : bool) (e : expr) (q : query) : list idx3 :=
  flat_map (fun c : chain => if match_q_g vq (strip_log (fst c)) (snd c) q then [log_index (fst c)] else [])
           (sort_pd (find_pd_g ea e)).

Definition get_max_phys_g (ea vq : bool) (e : expr) (q : option query) : option idx3 :=
  match q with
  | None => if is_pyseq e then None else Some (max3 (flat_map (index_atom_phys_g ea vq e) (atoms_of e)))
  | Some f => Some (max3 (index_atom_phys_g ea vq e f))
  end.
Definition get_max_log_g (ea vq : bool) (e : expr) (q : option query) : option idx3 :=
  match q with
  | None => if is_pyseq e then None else Some (max3 (flat_map (index_atom_log_g ea vq e) (atoms_of e)))
  | Some f => Some (max3 (index_atom_log_g ea vq e f))
  end.

(* ------------------------------------------------------------------ comparator glue for the case files *)
Definition show_op (o : dop) : string :=
  match o with Dx => "dx" | Dy => "dy" | Dz => "dz" | D1 => "dx1" | D2 => "dx2" | D3 => "dx3" end.
Definition show_atom (a : fatom) : string :=
  match a with FScal n => "s:" ++ n | FComp n i => "c:" ++ n ++ "[" ++ dec i ++ "]" end.
Definition show_chain (c : chain) : string :=
  String.concat "." (map show_op (fst c)) ++ "@" ++ show_atom (snd c).

Fixpoint show (e : expr) : string :=
  match e with
  | Num s => "N<" ++ s ++ ">"
  | Sym s => "S<" ++ s ++ ">"
  | Vec n => "V<" ++ n ++ ">"
  | Chain ops a => "C<" ++ show_chain (ops, a) ++ ">"
  | Add l => "A(" ++ String.concat "," (map show l) ++ ")"
  | Mul l => "M(" ++ String.concat "," (map show l) ++ ")"
  | Pow b x => "P(" ++ show b ++ "^" ++ show x ++ ")"
  | Fn f l => "F:" ++ f ++ "(" ++ String.concat "," (map show l) ++ ")"
  | Tup l => "T(" ++ String.concat "," (map show l) ++ ")"
  | Seq l => "L(" ++ String.concat "," (map show l) ++ ")"
  | Mat imm rows => (if imm then "IX[" else "MX[") ++
                    String.concat ";" (map (fun r => String.concat "," (map show r)) rows) ++ "]"
  end.

Fixpoint insert_by (x : expr) (l : list expr) : list expr :=
  match l with
  | [] => [x]
  | y :: r => if String.leb (show x) (show y) then x :: l else y :: insert_by x r
  end.
Definition sort_args (l : list expr) : list expr := fold_right insert_by [] l.

(* sympy stores the arguments of Add and Mul in its own canonical order: compare modulo that order *)
Fixpoint canon_ac (e : expr) : expr :=
  match e with
  | Add l => Add (sort_args (map canon_ac l))
  | Mul l => Mul (sort_args (map canon_ac l))
  | Pow b x => Pow (canon_ac b) (canon_ac x)
  | Fn f l => Fn f (map canon_ac l)
  | Tup l => Tup (map canon_ac l)
  | Seq l => Seq (map canon_ac l)
  | Mat imm rows => Mat imm (map (map canon_ac) rows)
  | _ => e
  end.
Definition ac_eqb (a b : expr) : bool := String.eqb (show (canon_ac a)) (show (canon_ac b)).

Fixpoint list_beq {A} (f : A -> A -> bool) (l1 l2 : list A) : bool :=
  match l1, l2 with
  | [], [] => true
  | x :: r, y :: s => f x y && list_beq f r s
  | _, _ => false
  end.
Definition chain_beq (c d : chain) : bool :=
  list_beq dop_eqb (fst c) (fst d) && fatom_eqb (snd c) (snd d).
Definition idx3_beq (s t : idx3) : bool :=
  let '(a, b, c) := s in let '(x, y, z) := t in Nat.eqb a x && Nat.eqb b y && Nat.eqb c z.
Definition oidx3_beq (s t : option idx3) : bool :=
  match s, t with Some a, Some b => idx3_beq a b | None, None => true | _, _ => false end.
