(* Executable model of the derivative-atom bookkeeping of sympde (C17):
     sympde/topology/mapping.py      SymbolicExpr.eval
     sympde/topology/derivatives.py  find_partial_derivatives, get_number_derivatives,
                                     sort_partial_derivatives, get_index_(logical_)derivatives,
                                     get_atom_(logical_)derivatives, get_index_(logical_)derivatives_atom,
                                     get_max_(logical_)partial_derivatives
   The model follows the Python code arm by arm.  No proofs here: the model still runs when a
   proof breaks. *)
From Coq Require Import String Ascii List Bool Arith PeanoNat DecimalString.
Import ListNotations.
Open Scope string_scope.

(* ------------------------------------------------------------------ terms *)
(* dx dy dz (physical, `_partial_derivatives`) and dx1 dx2 dx3 (`_logical_partial_derivatives`) *)
Inductive dop := Dx | Dy | Dz | D1 | D2 | D3.

(* A Mapping object as SymbolicExpr sees it: its name and the side flag that InterfaceMapping sets on the two
   copies it keeps (mapping.is_minus / mapping.is_plus), or an InterfaceMapping (name 'minus|plus'). *)
Inductive mside := SNone | SMinus | SPlus.
Inductive mapping :=
| MPlain (n : string) (s : mside)
| MIface (a b : string).

(* what a chain of derivatives is applied to:
     a ScalarFunction (by name),
     the component u[i] of a VectorFunction (IndexedVectorFunction: name of the base + index),
     one of these restricted to a side of an interface (MinusInterfaceOperator / PlusInterfaceOperator),
     the component M[i] of a Mapping (sympy Indexed with a Mapping base) *)
Inductive fatom :=
| FScal (n : string)
| FComp (n : string) (i : nat)
| FSide (plus : bool) (a : fatom)
| FMap (m : mapping) (i : nat).

(* geometry atoms that are translated to a Symbol by name *)
Inductive gatom :=
| GMap (m : mapping)                  (* a Mapping object itself *)
| GWvol (m : mapping)                 (* SymbolicWeightedVolume(mapping) *)
| GDet (jac : bool) (m : mapping).    (* SymbolicDeterminant(mapping) / SymbolicDeterminant(mapping.jacobian) *)

(* the two exceptions SymbolicExpr.eval raises itself *)
Inductive errk := EValue | ENotImpl.  (* ValueError('Wrong index') / NotImplementedError('Cannot translate to Sympy') *)
Inductive res (A : Type) := Ok (a : A) | Err (k : errk).
Arguments Ok {A} a.
Arguments Err {A} k.
Definition rbind {A B} (r : res A) (f : A -> res B) : res B := match r with Ok a => f a | Err k => Err k end.
Definition rmap {A B} (f : A -> B) (r : res A) : res B := match r with Ok a => Ok (f a) | Err k => Err k end.
Section MapM.
  Context {A B : Type}.
  Variable f : A -> res B.
  (* [f(a) for a in l]: left to right, the first exception wins *)
  Fixpoint mapM (l : list A) : res (list B) :=
    match l with
    | [] => Ok []
    | x :: r => match f x with
                | Err k => Err k
                | Ok y => match mapM r with Err k => Err k | Ok ys => Ok (y :: ys) end
                end
    end.
End MapM.

(* the optional argument F of get_max_*partial_derivatives: a function atom, or a VectorFunction *)
Inductive query := QAtom (a : fatom) | QVec (n : string).

(* One grammar for kernels and for the results of SymbolicExpr (DESIGN appendix A).
   [Chain ops a]: the operators [ops] (outermost first) applied to [a]; [Chain [] a] is the bare atom. *)
Inductive expr :=
| Num (s : string)                 (* int / Rational / Float / NumberSymbol: printed form, opaque *)
| Sym (s : string)                 (* a plain sympy Symbol or a sympde Constant *)
| Vec (n : string)                 (* a bare VectorFunction *)
| Chain (ops : list dop) (a : fatom)
| Add (l : list expr)
| Mul (l : list expr)
| Pow (b e : expr)
| Fn (f : string) (l : list expr)  (* sympy Function application: sin, cos, exp, log, Abs, ... *)
| Tup (l : list expr)              (* sympy Tuple *)
| Seq (l : list expr)              (* python list / tuple *)
| Mat (imm : bool) (rows : list (list expr))    (* Matrix / ImmutableDenseMatrix *)
| Side (plus : bool) (e : expr)    (* Minus/PlusInterfaceOperator around something that is not a function atom *)
| Geo (g : gatom)                  (* Mapping, SymbolicWeightedVolume, SymbolicDeterminant *)
| IBase (s : string)               (* sympy IndexedBase (also NormalVector): passed through *)
| IdxS (s : string)                (* sympy Idx: passed through *)
| ImI                              (* ImaginaryUnit: passed through *)
| PIdx (b i : string)              (* sympy Indexed whose base is neither a Mapping nor a VectorFunction: A[i], n[0] *)
| PB (f : string) (vec : bool) (e : expr)   (* PullBack(f) of the scalar / vector function f; e = its .expr *)
| Opaque (basic : bool).           (* anything else; basic = it is a sympy Basic (Boolean, Derivative, Domain, ...)
                                      and not a bare python object (str, None) *)

Definition chain := (list dop * fatom)%type.

Definition is_phys (o : dop) : bool := match o with Dx | Dy | Dz => true | _ => false end.
Definition is_log (o : dop) : bool := negb (is_phys o).
Definition dop_eqb (a b : dop) : bool :=
  match a, b with
  | Dx, Dx | Dy, Dy | Dz, Dz | D1, D1 | D2, D2 | D3, D3 => true
  | _, _ => false
  end.
Definition mside_eqb (a b : mside) : bool :=
  match a, b with SNone, SNone | SMinus, SMinus | SPlus, SPlus => true | _, _ => false end.
Definition mapping_eqb (a b : mapping) : bool :=
  match a, b with
  | MPlain n s, MPlain m t => String.eqb n m && mside_eqb s t
  | MIface a1 b1, MIface a2 b2 => String.eqb a1 a2 && String.eqb b1 b2
  | _, _ => false
  end.
Fixpoint fatom_eqb (a b : fatom) : bool :=
  match a, b with
  | FScal n, FScal m => String.eqb n m
  | FComp n i, FComp m j => String.eqb n m && Nat.eqb i j
  | FSide p x, FSide q y => Bool.eqb p q && fatom_eqb x y
  | FMap m i, FMap n j => mapping_eqb m n && Nat.eqb i j
  | _, _ => false
  end.

(* ------------------------------------------------------------------ indices *)
Fixpoint count (d : dop) (ops : list dop) : nat :=
  match ops with [] => 0 | o :: r => (if dop_eqb d o then 1 else 0) + count d r end.

Definition idx3 := (nat * nat * nat)%type.
(* get_index_derivatives: {'x':.., 'y':.., 'z':..}, counted over the whole expression (preorder_traversal) *)
Definition phys_index (ops : list dop) : idx3 := (count Dx ops, count Dy ops, count Dz ops).
(* get_index_logical_derivatives: {'x1':.., 'x2':.., 'x3':..} *)
Definition log_index (ops : list dop) : idx3 := (count D1 ops, count D2 ops, count D3 ops).
(* the identity of a chain according to C17: (component, multi-index) *)
Definition multi_index (ops : list dop) : idx3 * idx3 := (phys_index ops, log_index ops).

(* ------------------------------------------------------------------ SymbolicExpr: names *)
(* python  k*n  for a string k *)
Fixpoint rep (s : string) (n : nat) : string := match n with 0 => "" | S k => s ++ rep s k end.

(* index = dict(sorted(index.items()));  for k,n in index.items(): code += k*n *)
Definition code_phys (t : idx3) : string := let '(a, b, c) := t in rep "x" a ++ rep "y" b ++ rep "z" c.
Definition code_log (t : idx3) : string := let '(a, b, c) := t in rep "x1" a ++ rep "x2" b ++ rep "x3" c.

(* '{}'.format(i) for a non-negative integer *)
Definition dec (n : nat) : string := NilEmpty.string_of_uint (Nat.to_uint n).

(* if code: name = '{name}_{code}'   (None and '' are both falsy) *)
Definition with_code (name : string) (code : option string) : string :=
  match code with
  | None => name
  | Some c => if String.eqb c "" then name else name ++ "_" ++ c
  end.

(* Mapping.name; for an InterfaceMapping '{}|{}'.format(minus.name, plus.name) *)
Definition map_name (m : mapping) : string :=
  match m with MPlain n _ => n | MIface a b => a ++ "|" ++ b end.
(* base.is_plus (None / False are falsy) *)
Definition map_is_plus (m : mapping) : bool := match m with MPlain _ SPlus => true | _ => false end.
(* if isinstance(mapping, InterfaceMapping): mapping = mapping.minus *)
Definition map_minus (m : mapping) : mapping := match m with MIface a _ => MPlain a SMinus | _ => m end.

(* indices[0] == 0 -> 'x', == 1 -> 'y', == 2 -> 'z', else: raise ValueError('Wrong index') *)
Definition coord_name (i : nat) : res string :=
  match i with 0 => Ok "x" | 1 => Ok "y" | 2 => Ok "z" | _ => Err EValue end.

(* arms `isinstance(expr, (ScalarFunction, VectorFunction))`, `isinstance(expr, (PlusInterfaceOperator,
   MinusInterfaceOperator))` (the code is handed on to the argument) and `isinstance(expr, Indexed)`
   (base a Mapping: coordinate name, '_plus' when base.is_plus; otherwise '{base}_{i}') *)
Fixpoint atom_name (a : fatom) (code : option string) : res string :=
  match a with
  | FScal n => Ok (with_code n code)
  | FSide _ a' => atom_name a' code
  | FMap m i => rmap (fun c => with_code (if map_is_plus m then c ++ "_plus" else c) code) (coord_name i)
  | FComp n i => Ok (with_code (n ++ "_" ++ dec i) code)
  end.

(* the names of the geometry atoms *)
Definition gatom_name (g : gatom) : string :=
  match g with
  | GMap m => map_name m                                        (* Symbol(expr.name) *)
  | GWvol m => "wvol_" ++ map_name (map_minus m)                (* 'wvol_{mapping}' *)
  | GDet jac m => "det_" ++ (if jac then "Jacobian(" ++ map_name m ++ ")" else map_name m)   (* 'det_{}'.format(str(expr.args[0])) *)
  end.

Inductive kind := KP | KL.
Definition kind_of (o : dop) : kind := if is_phys o then KP else KL.
Definition kind_eqb (a b : kind) : bool := match a, b with KP, KP | KL, KL => true | _, _ => false end.

(* cls.eval(expr, code=code) on a chain.  The arm `isinstance(expr, _partial_derivatives)` computes
     atom = get_atom_derivatives(expr)      -- strips the leading physical operators
     code = x^a y^b z^c from get_index_derivatives(expr)   -- counts dx/dy/dz in the WHOLE expr
   forgets the incoming code, and recurses on atom; the logical arm is symmetric.  [cur = Some k] means
   "inside get_atom_*: operators of kind k are being stripped"; an operator of the other kind starts the
   other arm, which overwrites the code. *)
Fixpoint chain_eval (cur : option kind) (ops : list dop) (a : fatom) (code : option string) : res string :=
  match ops with
  | [] => atom_name a code
  | o :: r =>
      let k := kind_of o in
      if match cur with Some c => kind_eqb c k | None => false end
      then chain_eval cur r a code
      else chain_eval (Some k) r a
             (Some (match k with KP => code_phys (phys_index ops) | KL => code_log (log_index ops) end))
  end.

Definition chain_name (ops : list dop) (a : fatom) : res string := chain_eval None ops a None.

(* SymbolicExpr.eval at code=None (the code is only ever set inside the derivative arms), arm by arm, with the
   exponent of a power handled as in the code before 1e5436c (passed through); [symbolic_g true] below is the
   current code *)
Fixpoint symbolic (e : expr) : res expr :=
  match e with
  | Add l => rmap Add (mapM symbolic l)        (* Add of [eval(a) for a in expr.args] *)
  | Mul l => rmap Mul (mapM symbolic l)
  | Pow b x => rmap (fun b' => Pow b' x) (symbolic b)   (* Pow(eval(b), e): the exponent is passed through *)
  | Num s => Ok (Num s)                        (* _coeffs_registery *)
  | Tup l => rmap Tup (mapM symbolic l)        (* list / tuple / Tuple -> Tuple *)
  | Seq l => rmap Tup (mapM symbolic l)
  | Mat imm rows => rmap (Mat imm) (mapM (mapM symbolic) rows)   (* type(expr)(lines) *)
  | Vec n => Ok (Sym n)                        (* VectorFunction -> Symbol(name) *)
  | Side _ x => symbolic x                     (* Plus/MinusInterfaceOperator: eval(expr.args[0]) *)
  | PIdx b i => Ok (Sym (b ++ "_" ++ i))       (* Indexed, base not a Mapping: '{base}_{i}' *)
  | Chain ops a => rmap Sym (chain_name ops a) (* ScalarFunction / Plus/Minus / Indexed / derivative arms *)
  | Geo (GMap m) => Ok (Sym (gatom_name (GMap m)))       (* Mapping -> Symbol(name) *)
  | Sym s => Ok (Sym s)                        (* Constant, Symbol *)
  | IBase s => Ok (IBase s)                    (* IndexedBase *)
  | IdxS s => Ok (IdxS s)                      (* Idx *)
  | Fn f l => rmap (Fn f) (mapM symbolic l)    (* type(expr) of [eval(a) for a in expr.args] *)
  | ImI => Ok ImI                              (* ImaginaryUnit *)
  | Geo (GWvol m) => Ok (Sym (gatom_name (GWvol m)))     (* SymbolicWeightedVolume *)
  | Geo (GDet j m) => Ok (Sym (gatom_name (GDet j m)))   (* SymbolicDeterminant *)
  | PB _ _ x => symbolic x                     (* PullBack: eval(expr.expr) *)
  | Opaque _ => Err ENotImpl                   (* raise NotImplementedError('Cannot translate to Sympy') *)
  end.

(* ------------------------------------------------------------------ find / sort *)
(* find_partial_derivatives *)
Fixpoint find_pd (e : expr) : list chain :=
  match e with
  | Add l => flat_map find_pd l                (* find_partial_derivatives(expr.args): the tuple arm *)
  | Mul l => flat_map find_pd l
  | Pow b _ => find_pd b                       (* base only *)
  | Tup l => flat_map find_pd l
  | Seq l => flat_map find_pd l
  | Chain (o :: r) a => [(o :: r, a)]          (* a dx/dy/dz/dx1/dx2/dx3 node *)
  | _ => []                                    (* everything else: Matrix, Function, interface operators, atoms *)
  end.

(* get_number_derivatives: number of leading PHYSICAL operators *)
Fixpoint lead_phys (ops : list dop) : nat :=
  match ops with o :: r => if is_phys o then S (lead_phys r) else 0 | [] => 0 end.

(* sort_partial_derivatives: groups by get_number_derivatives (insertion order kept inside a group),
   groups from high to low *)
Definition sort_pd (l : list chain) : list chain :=
  let m := list_max (map (fun c => lead_phys (fst c)) l) in
  flat_map (fun k => filter (fun c => Nat.eqb (lead_phys (fst c)) k) l) (rev (seq 0 (S m))).

(* get_atom_derivatives / get_atom_logical_derivatives: strip the leading operators of one kind *)
Fixpoint strip_phys (ops : list dop) : list dop :=
  match ops with o :: r => if is_phys o then strip_phys r else ops | [] => [] end.
Fixpoint strip_log (ops : list dop) : list dop :=
  match ops with o :: r => if is_log o then strip_log r else ops | [] => [] end.

(* `a == atom` where a = get_atom_*derivatives(i) and atom = F *)
Definition match_q (rest : list dop) (a : fatom) (q : query) : bool :=
  match q with
  | QAtom f => match rest with [] => fatom_eqb a f | _ => false end
  | QVec _ => false      (* a VectorFunction is never the innermost argument of a chain *)
  end.

(* get_index_derivatives_atom / get_index_logical_derivatives_atom *)
Definition index_atom_phys (e : expr) (q : query) : list idx3 :=
  flat_map (fun c : chain => if match_q (strip_phys (fst c)) (snd c) q then [phys_index (fst c)] else [])
           (sort_pd (find_pd e)).
Definition index_atom_log (e : expr) (q : query) : list idx3 :=
  flat_map (fun c : chain => if match_q (strip_log (fst c)) (snd c) q then [log_index (fst c)] else [])
           (sort_pd (find_pd e)).

(* expr.atoms(ScalarFunction) + expr.atoms(VectorFunction) + expr.atoms(IndexedVectorFunction):
   every function atom occurring anywhere (preorder traversal of all args); order and repetitions
   are irrelevant for the maximum taken afterwards *)
Fixpoint fatoms (a : fatom) : list query :=
  match a with
  | FScal n => [QAtom (FScal n)]
  | FComp n i => [QAtom (FComp n i); QVec n]
  | FSide _ a' => fatoms a'                    (* .atoms() looks through the interface operator *)
  | FMap _ _ => []                             (* M[i] is a plain sympy Indexed over a Mapping *)
  end.
Fixpoint atoms_of (e : expr) : list query :=
  match e with
  | Vec n => [QVec n]
  | Chain _ a => fatoms a
  | Add l | Mul l | Fn _ l | Tup l | Seq l => flat_map atoms_of l
  | Pow b x => atoms_of b ++ atoms_of x
  | Mat _ rows => flat_map (flat_map atoms_of) rows
  | Side _ x => atoms_of x
  | PB f vec _ => [if vec then QVec f else QAtom (FScal f)]   (* args = (f,); .expr is not an argument *)
  | _ => []
  end.

(* d = {..:0};  for dd in indices: for k,v in dd.items(): if v > d[k]: d[k] = v *)
Definition max3 (l : list idx3) : idx3 :=
  fold_left (fun d t => let '(a, b, c) := d in let '(x, y, z) := t in (Nat.max a x, Nat.max b y, Nat.max c z))
            l (0, 0, 0).

Definition is_pyseq (e : expr) : bool := match e with Seq _ => true | _ => false end.

(* get_max_partial_derivatives(expr, F) / get_max_logical_partial_derivatives(expr, F);
   None = AttributeError (a python list/tuple has no .atoms) *)
Definition get_max_phys (e : expr) (q : option query) : option idx3 :=
  match q with
  | None => if is_pyseq e then None else Some (max3 (flat_map (index_atom_phys e) (atoms_of e)))
  | Some f => Some (max3 (index_atom_phys e f))
  end.
Definition get_max_log (e : expr) (q : option query) : option idx3 :=
  match q with
  | None => if is_pyseq e then None else Some (max3 (flat_map (index_atom_log e) (atoms_of e)))
  | Some f => Some (max3 (index_atom_log e f))
  end.

(* ------------------------------------------------------------------ the same functions with the proposed repairs *)
(* Three independent repairs of the traversal are modelled as flags, so that the check keeps following the code
   when a repair is applied to /repo (the harness reads the flags from the source text of the three functions and
   the correspondence run then ties the chosen variant to the behaviour; all flags false = the functions above):
     ea  find_partial_derivatives also enters Pow exponents, Matrix entries and the arguments of any other
         expression (elementary functions, ...)
     pe  SymbolicExpr also translates the exponent of a Pow
     vq  get_index_*_derivatives_atom accepts a VectorFunction F: the chains over its components
     sq  get_index_*_derivatives_atom looks through the interface operators around the innermost argument of a
         chain: dx(minus(u)) is a chain of u (proposed, fix-sided-atom-orders) *)
Fixpoint symbolic_g (pe : bool) (e : expr) : res expr :=
  match e with
  | Add l => rmap Add (mapM (symbolic_g pe) l)
  | Mul l => rmap Mul (mapM (symbolic_g pe) l)
  | Pow b x => rbind (symbolic_g pe b) (fun b' =>          (* Pow(eval(b), eval(e)): base first *)
               if pe then rmap (Pow b') (symbolic_g pe x) else Ok (Pow b' x))
  | Num s => Ok (Num s)
  | Tup l => rmap Tup (mapM (symbolic_g pe) l)
  | Seq l => rmap Tup (mapM (symbolic_g pe) l)
  | Mat imm rows => rmap (Mat imm) (mapM (mapM (symbolic_g pe)) rows)
  | Vec n => Ok (Sym n)
  | Side _ x => symbolic_g pe x
  | PIdx b i => Ok (Sym (b ++ "_" ++ i))
  | Chain ops a => rmap Sym (chain_name ops a)
  | Geo (GMap m) => Ok (Sym (gatom_name (GMap m)))
  | Sym s => Ok (Sym s)
  | IBase s => Ok (IBase s)
  | IdxS s => Ok (IdxS s)
  | Fn f l => rmap (Fn f) (mapM (symbolic_g pe) l)
  | ImI => Ok ImI
  | Geo (GWvol m) => Ok (Sym (gatom_name (GWvol m)))
  | Geo (GDet j m) => Ok (Sym (gatom_name (GDet j m)))
  | PB _ _ x => symbolic_g pe x
  | Opaque _ => Err ENotImpl
  end.

(* SymbolicExpr / SymbolicExpr.eval called with n positional arguments:  `if not _args: return` (None: the object stays unevaluated),
   `if not len(_args) == 1: raise ValueError('Expecting one argument')` *)
Inductive call_res := Unevaluated | Evaluated (r : res expr).
Definition symbolic_call (pe : bool) (args : list expr) : call_res :=
  match args with
  | [] => Unevaluated
  | [e] => Evaluated (symbolic_g pe e)
  | _ => Evaluated (Err EValue)
  end.

Fixpoint find_pd_g (ea : bool) (e : expr) : list chain :=
  match e with
  | Add l => flat_map (find_pd_g ea) l
  | Mul l => flat_map (find_pd_g ea) l
  | Pow b x => if ea then find_pd_g ea b ++ find_pd_g ea x else find_pd_g ea b
  | Tup l => flat_map (find_pd_g ea) l
  | Seq l => flat_map (find_pd_g ea) l
  | Mat _ rows => if ea then flat_map (flat_map (find_pd_g ea)) rows else []
  | Chain (o :: r) a => [(o :: r, a)]
  | Fn _ l => if ea then flat_map (find_pd_g ea) l else []
  | Side _ x => if ea then find_pd_g ea x else []    (* any other Basic: find_partial_derivatives(expr.args) *)
  | _ => []       (* PullBack: args = (f,), .expr is not visited; atoms; a non-Basic python object: return () *)
  end.

(* while isinstance(a, (minus, plus)): a = a.args[0] *)
Fixpoint unside (a : fatom) : fatom := match a with FSide _ a' => unside a' | _ => a end.

(* _is_atom_of(a, atom) *)
Definition match_q_g (vq sq : bool) (rest : list dop) (a : fatom) (q : query) : bool :=
  let a' := if sq then unside a else a in
  match q with
  | QAtom f => match rest with [] => fatom_eqb a f || fatom_eqb a' f | _ => false end
  | QVec n => vq && match rest, a' with [], FComp m _ => String.eqb m n | _, _ => false end
  end.

Definition index_atom_phys_g (ea vq sq : bool) (e : expr) (q : query) : list idx3 :=
  flat_map (fun c : chain => if match_q_g vq sq (strip_phys (fst c)) (snd c) q then [phys_index (fst c)] else [])
           (sort_pd (find_pd_g ea e)).
Definition index_atom_log_g (ea vq sq : bool) (e : expr) (q : query) : list idx3 :=
  flat_map (fun c : chain => if match_q_g vq sq (strip_log (fst c)) (snd c) q then [log_index (fst c)] else [])
           (sort_pd (find_pd_g ea e)).

Definition get_max_phys_g (ea vq sq : bool) (e : expr) (q : option query) : option idx3 :=
  match q with
  | None => if is_pyseq e then None else Some (max3 (flat_map (index_atom_phys_g ea vq sq e) (atoms_of e)))
  | Some f => Some (max3 (index_atom_phys_g ea vq sq e f))
  end.
Definition get_max_log_g (ea vq sq : bool) (e : expr) (q : option query) : option idx3 :=
  match q with
  | None => if is_pyseq e then None else Some (max3 (flat_map (index_atom_log_g ea vq sq e) (atoms_of e)))
  | Some f => Some (max3 (index_atom_log_g ea vq sq e f))
  end.

(* ------------------------------------------------------------------ comparator glue for the case files *)
Definition show_op (o : dop) : string :=
  match o with Dx => "dx" | Dy => "dy" | Dz => "dz" | D1 => "dx1" | D2 => "dx2" | D3 => "dx3" end.
Definition show_mapping (m : mapping) : string :=
  match m with
  | MPlain n s => n ++ (match s with SNone => "" | SMinus => "-" | SPlus => "+" end)
  | MIface a b => a ++ "|" ++ b
  end.
Fixpoint show_atom (a : fatom) : string :=
  match a with
  | FScal n => "s:" ++ n
  | FComp n i => "c:" ++ n ++ "[" ++ dec i ++ "]"
  | FSide p a' => (if p then "plus:" else "minus:") ++ show_atom a'
  | FMap m i => "m:" ++ show_mapping m ++ "[" ++ dec i ++ "]"
  end.
Definition show_gatom (g : gatom) : string :=
  match g with
  | GMap m => "map:" ++ show_mapping m
  | GWvol m => "wvol:" ++ show_mapping m
  | GDet j m => (if j then "detJ:" else "det:") ++ show_mapping m
  end.
Definition show_chain (c : chain) : string :=
  String.concat "." (map show_op (fst c)) ++ "@" ++ show_atom (snd c).

Fixpoint show (e : expr) : string :=
  match e with
  | Num s => "N<" ++ s ++ ">"
  | Sym s => "S<" ++ s ++ ">"
  | Vec n => "V<" ++ n ++ ">"
  | Chain ops a => "C<" ++ show_chain (ops, a) ++ ">"
  | Add l => "A(" ++ String.concat "," (map show l) ++ ")"
  | Mul l => "M(" ++ String.concat "," (map show l) ++ ")"
  | Pow b x => "P(" ++ show b ++ "^" ++ show x ++ ")"
  | Fn f l => "F:" ++ f ++ "(" ++ String.concat "," (map show l) ++ ")"
  | Tup l => "T(" ++ String.concat "," (map show l) ++ ")"
  | Seq l => "L(" ++ String.concat "," (map show l) ++ ")"
  | Mat imm rows => (if imm then "IX[" else "MX[") ++
                    String.concat ";" (map (fun r => String.concat "," (map show r)) rows) ++ "]"
  | Side p x => (if p then "PLUS(" else "MINUS(") ++ show x ++ ")"
  | Geo g => "G<" ++ show_gatom g ++ ">"
  | IBase n => "IB<" ++ n ++ ">"
  | IdxS n => "IDX<" ++ n ++ ">"
  | ImI => "I"
  | PIdx b i => "PI<" ++ b ++ "[" ++ i ++ "]>"
  | PB f vec x => "PB:" ++ f ++ (if vec then "*" else "") ++ "(" ++ show x ++ ")"
  | Opaque b => if b then "OPAQUE" else "PYOBJ"
  end.

Fixpoint insert_by (x : expr) (l : list expr) : list expr :=
  match l with
  | [] => [x]
  | y :: r => if String.leb (show x) (show y) then x :: l else y :: insert_by x r
  end.
Definition sort_args (l : list expr) : list expr := fold_right insert_by [] l.

(* sympy stores the arguments of Add and Mul in its own canonical order: compare modulo that order *)
Fixpoint canon_ac (e : expr) : expr :=
  match e with
  | Add l => Add (sort_args (map canon_ac l))
  | Mul l => Mul (sort_args (map canon_ac l))
  | Pow b x => Pow (canon_ac b) (canon_ac x)
  | Fn f l => Fn f (map canon_ac l)
  | Tup l => Tup (map canon_ac l)
  | Seq l => Seq (map canon_ac l)
  | Mat imm rows => Mat imm (map (map canon_ac) rows)
  | Side p x => Side p (canon_ac x)
  | PB f vec x => PB f vec (canon_ac x)
  | _ => e
  end.
Definition ac_eqb (a b : expr) : bool := String.eqb (show (canon_ac a)) (show (canon_ac b)).

(* comparison of an outcome of SymbolicExpr with the model's: the same exception, or the same tree modulo the
   argument order of Add / Mul *)
Definition errk_eqb (a b : errk) : bool := match a, b with EValue, EValue | ENotImpl, ENotImpl => true | _, _ => false end.
Definition res_ac_eqb (a b : res expr) : bool :=
  match a, b with Ok x, Ok y => ac_eqb x y | Err j, Err k => errk_eqb j k | _, _ => false end.
Definition call_res_beq (a b : call_res) : bool :=
  match a, b with Unevaluated, Unevaluated => true | Evaluated x, Evaluated y => res_ac_eqb x y | _, _ => false end.
Definition res_str_eqb (a b : res string) : bool :=
  match a, b with Ok x, Ok y => String.eqb x y | Err j, Err k => errk_eqb j k | _, _ => false end.

Fixpoint list_beq {A} (f : A -> A -> bool) (l1 l2 : list A) : bool :=
  match l1, l2 with
  | [], [] => true
  | x :: r, y :: s => f x y && list_beq f r s
  | _, _ => false
  end.
Definition chain_beq (c d : chain) : bool :=
  list_beq dop_eqb (fst c) (fst d) && fatom_eqb (snd c) (snd d).
Definition idx3_beq (s t : idx3) : bool :=
  let '(a, b, c) := s in let '(x, y, z) := t in Nat.eqb a x && Nat.eqb b y && Nat.eqb c z.
Definition oidx3_beq (s t : option idx3) : bool :=
  match s, t with Some a, Some b => idx3_beq a b | None, None => true | _, _ => false end.
