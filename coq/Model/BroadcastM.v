(* C16, shape part: numpy broadcasting of shapes and the two wrappers built by
   sympde.utilities.utils.lambdify_sympde, arm for arm.  Definitions only (proofs: Proofs/BroadcastP.v).

   A shape is the list of axis lengths, most significant axis first (numpy's .shape); a Python scalar and a
   0-d array both have shape [].  numpy aligns shapes at the LAST axis, so the binary rule is written on
   reversed lists. *)
From Coq Require Import List Bool Arith.
Import ListNotations.

Definition shape := list nat.

(* one axis: equal lengths, or one of them is 1 *)
Definition bdim (a b : nat) : option nat :=
  if Nat.eqb a b then Some a else if Nat.eqb a 1 then Some b else if Nat.eqb b 1 then Some a else None.

(* least significant axis first *)
Fixpoint brev (a b : list nat) : option (list nat) :=
  match a, b with
  | [], _ => Some b
  | _, [] => Some a
  | x :: r, y :: s =>
      match bdim x y, brev r s with
      | Some d, Some t => Some (d :: t)
      | _, _ => None
      end
  end.

Definition broadcast2 (a b : shape) : option shape := option_map (@rev nat) (brev (rev a) (rev b)).

(* np.broadcast(XYZ...).shape ; None = "shape mismatch: objects cannot be broadcast to a single shape" *)
Fixpoint broadcast (l : list shape) : option shape :=
  match l with
  | [] => Some []
  | s :: r => match broadcast r with Some t => broadcast2 s t | None => None end
  end.

(* `dst[...] = src`: src must be broadcastable TO dst (extra leading axes of src must have length 1) *)
Fixpoint asg_rev (src dst : list nat) : bool :=
  match src, dst with
  | [], _ => true
  | x :: r, [] => Nat.eqb x 1 && asg_rev r []
  | x :: r, y :: s => (Nat.eqb x y || Nat.eqb x 1) && asg_rev r s
  end.

Definition assignable (src dst : shape) : bool := asg_rev (rev src) (rev dst).

Fixpoint shape_eqb (a b : shape) : bool :=
  match a, b with
  | [], [] => true
  | x :: r, y :: s => Nat.eqb x y && shape_eqb r s
  | _, _ => false
  end.

(* ------------------------------------------------------------------ components *)
(* A scalar component produced by sympy.lambdify(variables, expr, 'numpy') is an elementwise numpy
   expression of the variables it mentions: its value on inputs of the given shapes has the broadcast
   shape of the MENTIONED inputs ([] for a constant component).  [mask] says which variables occur. *)
Fixpoint select {A} (mask : list bool) (l : list A) : list A :=
  match mask, l with
  | true :: m, x :: r => x :: select m r
  | false :: m, _ :: r => select m r
  | _, _ => []
  end.

Definition comp_out (mask : list bool) (inputs : list shape) : option shape := broadcast (select mask inputs).

(* f_vec_sc: expression of shape () *)
Definition wrap_scalar (mask : list bool) (inputs : list shape) : option shape :=
  match broadcast inputs with                           (* b = np.broadcast(XYZ...) *)
  | None => None
  | Some b =>
      match b with
      | [] => comp_out mask inputs                      (* if b.ndim == 0: return f(XYZ...) *)
      | _ =>
          match comp_out mask inputs with               (* temp = np.asarray(f(XYZ...)) *)
          | None => None
          | Some t =>
              if shape_eqb b t then Some t              (* if b.shape == temp.shape: return temp *)
              else if assignable t b then Some b        (* result = np.zeros(b.shape); result[...] = temp *)
              else None
          end
      end
  end.

(* f_vec_v: array expression of shape cshape, one mask per component (row-major) *)
Definition wrap_array (cshape : shape) (masks : list (list bool)) (inputs : list shape) : option shape :=
  match broadcast inputs with
  | None => None
  | Some b =>                                           (* result = np.zeros(scalar_shape + b.shape) *)
      if forallb (fun m => match comp_out m inputs with
                           | Some t => assignable t b   (* result[multi_index] = f_mi(XYZ...) *)
                           | None => false
                           end) masks
      then Some (cshape ++ b) else None
  end.

(* CallableMapping: __call__ returns one scalar-wrapped value per physical coordinate; jacobian, jacobian_inv and
   metric are array-wrapped (pdim x ldim, ldim x pdim, ldim x ldim); metric_det is scalar-wrapped *)
Record callable_shapes := mkCS {
  cs_call : list (option shape);
  cs_jac : option shape;
  cs_jinv : option shape;
  cs_metric : option shape;
  cs_mdet : option shape }.

Definition callable (ldim pdim : nat) (m_expr : list (list bool)) (m_jac m_jinv m_metric : list (list bool))
           (m_mdet : list bool) (inputs : list shape) : callable_shapes :=
  mkCS (map (fun m => wrap_scalar m inputs) m_expr)
       (wrap_array [pdim; ldim] m_jac inputs)
       (wrap_array [ldim; pdim] m_jinv inputs)
       (wrap_array [ldim; ldim] m_metric inputs)
       (wrap_scalar m_mdet inputs).
