(* C12 - model of "results depend only on inputs".
   Objects are seen by the library's caches and by == / hash only through their [key]
   (class + the arguments that reach Basic.__new__ / _hashable_content); everything else
   (dim, dtype, bounds, mapping of an interior, space kind ... see Gen/Identity.v for the
   table probed from the source) is an attribute outside the key.  No proofs here. *)
From Coq Require Import String List Bool Arith.
Import ListNotations.

Section World.
  Variable K : Type.                 (* what == / hash / @cacheit see *)
  Variable A : Type.                 (* attributes outside the key *)
  Variable R : Type.                 (* results *)
  Variable keqb : list K -> list K -> bool.

  Record obj := mkObj { key : K; attr : A }.

  (* the pure computation: a function of the whole objects *)
  Variable f : list obj -> R.

  Definition cache := list (list K * R).

  Fixpoint lookup (ks : list K) (c : cache) : option R :=
    match c with
    | [] => None
    | (ks', r) :: rest => if keqb ks ks' then Some r else lookup ks rest
    end.

  (* a memoised call: the cache is consulted with the KEYS of the arguments *)
  Definition call (c : cache) (args : list obj) : R * cache :=
    match lookup (map key args) c with
    | Some r => (r, c)
    | None => let r := f args in (r, (map key args, r) :: c)
    end.

  Inductive op := Call (args : list obj) | Clear.

  Fixpoint run (c : cache) (ops : list op) : list R :=
    match ops with
    | [] => []
    | Clear :: r => run [] r
    | Call args :: r => let (x, c') := call c args in x :: run c' r
    end.

  (* what a fresh interpreter computes for every call *)
  Fixpoint pure (ops : list op) : list R :=
    match ops with
    | [] => []
    | Clear :: r => pure r
    | Call args :: r => f args :: pure r
    end.

  Fixpoint objs_of (ops : list op) : list obj :=
    match ops with
    | [] => []
    | Clear :: r => objs_of r
    | Call args :: r => args ++ objs_of r
    end.
End World.

Arguments mkObj {K A}. Arguments key {K A}. Arguments attr {K A}.
Arguments Call {K A}. Arguments Clear {K A}.

(* ---- essential boundary conditions shared between equations (in-place position) ---- *)
(* An equation normalises its conditions by WRITING the index of the constrained unknown
   into the condition object itself.  Store: condition id -> position. *)
Definition store := list (nat * nat).
Fixpoint sget (s : store) (i : nat) : option nat :=
  match s with [] => None | (j, p) :: r => if Nat.eqb i j then Some p else sget r i end.
Fixpoint index_of_name (x : string) (l : list string) : nat :=
  match l with [] => 0 | y :: r => if String.eqb x y then 0 else S (index_of_name x r) end.
(* build an equation: trial names, conditions (id, variable name); returns the new store *)
Fixpoint build_eq (s : store) (trials : list string) (bcs : list (nat * string)) : store :=
  match bcs with
  | [] => s
  | (i, v) :: r => build_eq ((i, index_of_name v trials) :: s) trials r
  end.

(* boolean hygiene test on a history of (key, attribute-digest) pairs, used by the case files *)
Fixpoint faithful_b (l : list (string * nat)) : bool :=
  match l with
  | [] => true
  | (k, a) :: r =>
      forallb (fun p => negb (String.eqb k (fst p)) || Nat.eqb a (snd p)) r && faithful_b r
  end.
