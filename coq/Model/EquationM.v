(* Executable model of sympde.expr.equation (C18):
     EssentialBC.__new__   -> [classify] / [essential_new]
     Equation.__new__      -> [normalise] (value semantics) and [equation_new]
                              (object semantics: a store of EssentialBC objects; the
                              constructor appends new objects and never writes into
                              the given ones - /repo commit c2083c1)
   The model follows the Python code arm by arm.  No proofs here: the model still
   runs when a proof breaks. *)
From Coq Require Import String Ascii List Bool Arith PeanoNat ZArith.
From V Require Import Core.Canon.
Import ListNotations.
Open Scope string_scope.
Open Scope list_scope.

(* ------------------------------------------------------------------ functions *)
(* A ScalarFunction / VectorFunction as the constructor sees it.  [f_id] names its
   Python == class (the harness assigns ids from the real objects' ==, which for these
   classes looks at the class and the name only), [f_space] names its function space
   (object identity), [f_name] is str(f), [f_vec] tells a VectorFunction, [f_ldim] is
   f.ldim (used by range(u.ldim)). *)
Record fn := mkFn { f_id : nat; f_space : nat; f_name : string; f_vec : bool; f_ldim : nat }.
(* Python's == on functions, used by `in` and list.index: the space is not looked at
   (finding C18-F1: a function of another space with the name of an unknown is == to it) *)
Definition fn_eqb (a b : fn) : bool := Nat.eqb (f_id a) (f_id b).

(* ------------------------------------------------------------ left-hand sides *)
(* The expression object handed to EssentialBC: leaves and operator nodes.
   [ENode h args] is any sympy/sympde node of class [h] (Dot, Grad, NormalDerivative,
   Laplace, Div, Inner, Add, Mul, Pow, Trace, ...) with its args in the object's order. *)
Inductive lexpr :=
| EFun (f : fn)                 (* u : ScalarFunction or VectorFunction *)
| EIdx (f : fn) (i : nat)       (* u[i] : IndexedVectorFunction *)
| ENormal (n : string)          (* NormalVector(n) *)
| EInt (z : Z)                  (* Integer *)
| ESym (s : string)             (* any other leaf: Constant, coordinate, TangentVector *)
| ENode (h : string) (args : list lexpr).

(* what the user writes *)
Definition EGrad (a : lexpr) : lexpr := ENode "Grad" [a].

Fixpoint list_beq {A} (f : A -> A -> bool) (l1 l2 : list A) : bool :=
  match l1, l2 with
  | [], [] => true
  | x :: r, y :: s => f x y && list_beq f r s
  | _, _ => false
  end.

Definition fn_beq (a b : fn) : bool :=
  Nat.eqb (f_id a) (f_id b) && Nat.eqb (f_space a) (f_space b) && String.eqb (f_name a) (f_name b) &&
  Bool.eqb (f_vec a) (f_vec b) && Nat.eqb (f_ldim a) (f_ldim b).

(* structural equality of expression objects (sympy's == on trees) *)
Fixpoint lexpr_eqb (a b : lexpr) : bool :=
  match a, b with
  | EFun f, EFun g => fn_beq f g
  | EIdx f i, EIdx g j => fn_beq f g && Nat.eqb i j
  | ENormal n, ENormal m => String.eqb n m
  | EInt x, EInt y => Z.eqb x y
  | ESym s, ESym t => String.eqb s t
  | ENode h l, ENode k m =>
      String.eqb h k &&
      (fix go (l m : list lexpr) : bool :=
         match l, m with
         | [], [] => true
         | x :: r, y :: s => lexpr_eqb x y && go r s
         | _, _ => false
         end) l m
  | _, _ => false
  end.

(* preorder_traversal: the node, then its args (the args of u[i] are (u, i)) *)
Fixpoint subterms (e : lexpr) : list lexpr :=
  e :: match e with
       | EIdx f i => [EFun f; EInt (Z.of_nat i)]
       | ENode _ args => flat_map subterms args
       | _ => []
       end.

(* expr.atoms(T) = the set of sub-objects of type T; a set is a list without == duplicates *)
Inductive uatom := UFun (f : fn) | UIdx (f : fn) (i : nat).
Definition uatom_eqb (a b : uatom) : bool :=
  match a, b with
  | UFun f, UFun g => fn_eqb f g
  | UIdx f i, UIdx g j => fn_eqb f g && Nat.eqb i j
  | _, _ => false
  end.

Definition as_sfun (e : lexpr) : list uatom :=
  match e with EFun f => if f_vec f then [] else [UFun f] | _ => [] end.
Definition as_vfun (e : lexpr) : list uatom :=
  match e with EFun f => if f_vec f then [UFun f] else [] | _ => [] end.
Definition as_idx (e : lexpr) : list uatom :=
  match e with EIdx f i => [UIdx f i] | _ => [] end.
Definition as_normal (e : lexpr) : list string :=
  match e with ENormal n => [n] | _ => [] end.
Definition is_trace (e : lexpr) : bool :=
  match e with ENode h _ => String.eqb h "Trace" | _ => false end.

Definition atoms_sfun e := dedup uatom_eqb (flat_map as_sfun (subterms e)).
Definition atoms_vfun e := dedup uatom_eqb (flat_map as_vfun (subterms e)).
Definition atoms_idx e := dedup uatom_eqb (flat_map as_idx (subterms e)).
Definition atoms_normal e := dedup String.eqb (flat_map as_normal (subterms e)).
Definition atoms_trace e := filter is_trace (subterms e).

(* str() of the two kinds of operands that EssentialBC hands to dot():
   a function prints as its name, Grad(u) as "Grad(u)", a normal vector as its name.
   (Other nodes: class name and arguments; never used by [classify].) *)
Fixpoint digits (fuel n : nat) (acc : string) : string :=
  match fuel with
  | 0 => acc
  | S fuel' =>
      let acc' := String (ascii_of_nat (48 + n mod 10)) acc in
      if Nat.eqb (n / 10) 0 then acc' else digits fuel' (n / 10) acc'
  end.
Definition nat_str (n : nat) : string := digits (S n) n "".

Fixpoint show (e : lexpr) : string :=
  match e with
  | EFun f => f_name f
  | EIdx f i => (f_name f ++ "[" ++ nat_str i ++ "]")%string
  | ENormal n => n
  | EInt z => match z with Z0 => "0" | Zpos p => nat_str (Pos.to_nat p) | Zneg p => ("-" ++ nat_str (Pos.to_nat p))%string end
  | ESym s => s
  | ENode h args =>
      (h ++ "(" ++
       (fix go (l : list lexpr) : string :=
          match l with
          | [] => ""
          | [x] => show x
          | x :: r => show x ++ ", " ++ go r
          end) args ++ ")")%string
  end.

(* sympde.calculus.Dot.__new__ on two non-commutative operands without coefficients:
   `if str(a) > str(b): a, b = b, a`, then Basic.__new__(Dot, a, b) *)
(* since /repo d07302d the order is imposed only when neither operand may be matrix-valued (_may_be_matrix):
   of the operands that EssentialBC hands to dot() only Grad(u) with u a VECTOR function is *)
Definition may_mat (e : lexpr) : bool :=
  match e with
  | ENode "Grad" [EFun f] => f_vec f
  | _ => false
  end.
Definition mk_dot (a b : lexpr) : lexpr :=
  if negb (may_mat a || may_mat b) && String.ltb (show b) (show a) then ENode "Dot" [b; a] else ENode "Dot" [a; b].

(* ------------------------------------------------------------- EssentialBC *)
Inductive err :=
| ValueErr      (* ValueError: 'Expecting one test function' / 'Wrong lhs' *)
| TypeErr       (* TypeError: Trace not allowed; dot() of a component; wrong type for bc *)
| AssertErr     (* AssertionError: two different normal vectors *)
| NotImplErr    (* NotImplementedError *)
| ArgsErr       (* UnconsistentArgumentsError: bc not on a trial function *)
| LhsErr        (* UnconsistentLhsError *)
| RhsErr.       (* UnconsistentRhsError *)
Inductive res (A : Type) := Ok (a : A) | Err (e : err).
Arguments Ok {A}. Arguments Err {A}.

Record attrs := mkAttrs {
  a_order : nat;                   (* 0: value or normal component, 1: normal derivative *)
  a_var : fn;                      (* the constrained unknown *)
  a_nc : bool;                     (* normal_component *)
  a_ic : option (list nat) }.      (* index_component (None when not set) *)

Definition u_fn (u : uatom) : fn := match u with UFun f => f | UIdx f _ => f end.
Definition u_expr (u : uatom) : lexpr := match u with UFun f => EFun f | UIdx f i => EIdx f i end.
Definition u_is_vfun (u : uatom) : bool := match u with UFun f => f_vec f | UIdx _ _ => false end.

(* EssentialBC.__new__(lhs, rhs, boundary, position, index_component): the part that
   depends on lhs and index_component, statement by statement.
   Also returns the tag of the arm that produced the answer. *)
Definition classify_tag (lhs : lexpr) (index_component : option (list nat)) : res attrs * string :=
  let indexed := atoms_idx lhs in
  let u := atoms_sfun lhs ++ (match indexed with [] => atoms_vfun lhs | _ => indexed end) in
  match u with
  | [u] =>
      match atoms_trace lhs with
      | _ :: _ => (Err TypeErr, "trace")
      | [] =>
          let nn := atoms_normal lhs in
          let normal_component := u_is_vfun u && negb (match nn with [] => true | _ => false end) in
          (* order_0_expr, order_1_expr *)
          let lists : res (list lexpr * list lexpr) :=
            match nn with
            | [] => Ok ([u_expr u], [])
            | [n] =>
                match u with
                | UIdx _ _ =>
                    (* u.space is a VectorFunctionSpace, so dot(u, nn) is evaluated: u[i] is
                       commutative, Dot.__new__ reduces an empty list -> TypeError *)
                    Err TypeErr
                | UFun f =>
                    let o0 := if f_vec f then [EFun f; mk_dot (EFun f) (ENormal n)] else [EFun f] in
                    Ok (o0, [mk_dot (EGrad (EFun f)) (ENormal n)])
                end
            | _ => Err AssertErr
            end in
          match lists with
          | Err e => (Err e, match e with AssertErr => "two-normals" | _ => "dot-of-component" end)
          | Ok (order_0_expr, order_1_expr) =>
              if existsb (lexpr_eqb lhs) order_0_expr then
                match u with
                | UIdx f i => (Ok (mkAttrs 0 f normal_component (Some [i])), "order0/component")
                | UFun f =>
                    if f_vec f && negb normal_component
                    then (Ok (mkAttrs 0 f normal_component (Some (seq 0 (f_ldim f)))), "order0/vector")
                    else (Ok (mkAttrs 0 f normal_component index_component),
                          if normal_component then "order0/normal" else "order0/scalar")
                end
              else if existsb (lexpr_eqb lhs) order_1_expr then
                match u with
                | UIdx _ _ => (Err NotImplErr, "order1/indexed")
                | UFun f => (Ok (mkAttrs 1 f normal_component index_component), "order1")
                end
              else (Err ValueErr, "wrong-lhs")
          end
      end
  | _ => (Err ValueErr, "not-one-function")
  end.

Definition classify lhs ic : res attrs := fst (classify_tag lhs ic).

(* ------------------------------------------------------------- boundaries *)
(* A Boundary object: [fc_id] its == class, [fc_str] its printed name (the sort key of
   Union), then (patch, axis, ext); axis = -1 and ext = 0 for a boundary without axis. *)
Record face := mkFace { fc_id : nat; fc_str : string; fc_patch : string; fc_axis : Z; fc_ext : Z }.
Definition face_eqb (a b : face) : bool := Nat.eqb (fc_id a) (fc_id b).

Inductive bnd :=
| BNone                    (* Union() of nothing: None *)
| BFace (f : face)         (* a single face *)
| BUnion (l : list face).  (* a Union object and its args, in order *)

(* Union of the faces: sorted(set(args), key=str); None / the face itself / a Union (model of C14) *)
Definition mk_bnd (raw : list face) : bnd :=
  match canon face_eqb fc_str raw with
  | [] => BNone
  | [f] => BFace f
  | l => BUnion l
  end.

(* An EssentialBC object: args (lhs, rhs, boundary) + the attributes set by __new__.
   rhs is opaque (kept as printed). *)
Record ebc := mkBC { b_lhs : lexpr; b_rhs : string; b_bnd : bnd; b_attrs : attrs; b_pos : option nat }.

Definition essential_new (lhs : lexpr) (rhs : string) (boundary : bnd)
           (position : option nat) (index_component : option (list nat)) : res ebc :=
  match classify lhs index_component with
  | Err e => Err e
  | Ok a => Ok (mkBC lhs rhs boundary a position)
  end.

Definition set_position (b : ebc) (p : nat) : ebc :=
  mkBC (b_lhs b) (b_rhs b) (b_bnd b) (b_attrs b) (Some p).

(* ---------------------------------------------------------------- Equation *)
Definition mem_fn (v : fn) (l : list fn) : bool := existsb (fn_eqb v) l.
(* list.index: position of the first == element (0 when absent; guarded by mem_fn) *)
Fixpoint index_fn (v : fn) (l : list fn) : nat :=
  match l with
  | [] => 0
  | t :: r => if fn_eqb t v then 0 else S (index_fn v r)
  end.

(* EssentialBC(i.lhs, i.rhs, <boundary>, position=position, index_component=i.index_component):
   the constructor builds every condition it keeps anew, from the sides and the components
   of the given one *)
Definition rebuild (i : ebc) (bd : bnd) (position : nat) : res ebc :=
  essential_new (b_lhs i) (b_rhs i) bd (Some position) (a_ic (b_attrs i)).

(* [EssentialBC(i.lhs, i.rhs, j, position=position, index_component=i.index_component)
    for j in i.boundary._args] *)
Fixpoint expand (i : ebc) (position : nat) (faces : list face) : res (list ebc) :=
  match faces with
  | [] => Ok []
  | j :: r =>
      match rebuild i (BFace j) position with
      | Err e => Err e
      | Ok x => match expand i position r with Err e => Err e | Ok xs => Ok (x :: xs) end
      end
  end.

(* what one given condition contributes to newbc *)
Definition contribution (i : ebc) (position : nat) : res (list ebc) :=
  match b_bnd i with
  | BUnion l => expand i position l
  | bd => match rebuild i bd position with Err e => Err e | Ok x => Ok [x] end
  end.

(* the loop `for i in bc:` of Equation.__new__, on values: what eq.bc holds *)
Fixpoint normalise (trials : list fn) (bcs : list ebc) : res (list ebc) :=
  match bcs with
  | [] => Ok []
  | i :: rest =>
      if negb (mem_fn (a_var (b_attrs i)) trials) then Err ArgsErr else
      let position := index_fn (a_var (b_attrs i)) trials in
      match contribution i position with
      | Err e => Err e
      | Ok blk => match normalise trials rest with Err e => Err e | Ok out => Ok (blk ++ out) end
      end
  end.

(* --- object semantics.  The store holds every EssentialBC object created so far; an
   object is named by its index.  The constructor never writes into an object: the
   conditions it keeps are new objects appended to the store. *)
Definition store := list ebc.

Definition map_ok (g : list nat -> list nat) (x : store * res (list nat)) : store * res (list nat) :=
  match x with
  | (h2, Ok out) => (h2, Ok (g out))
  | (h2, Err e) => (h2, Err e)
  end.

Fixpoint eq_loop (trials : list fn) (h : store) (refs : list nat) : store * res (list nat) :=
  match refs with
  | [] => (h, Ok [])
  | r :: rest =>
      match nth_error h r with
      | None => (h, Err TypeErr)        (* not an object of the store: cannot happen *)
      | Some i =>
          if negb (mem_fn (a_var (b_attrs i)) trials) then (h, Err ArgsErr) else
          let position := index_fn (a_var (b_attrs i)) trials in
          match contribution i position with
          | Err e => (h, Err e)
          | Ok blk =>                                      (* new objects, appended to the store *)
              map_ok (app (seq (length h) (length blk))) (eq_loop trials (h ++ blk) rest)
          end
      end
  end.

(* --- the loop as it was before commit c2083c1 (kept for the record): the position was
   written into the given object (set_position) and a condition on a single face was put
   into eq.bc as that same object *)
Fixpoint set_nth {A} (k : nat) (v : A) (l : list A) : list A :=
  match l, k with
  | [], _ => []
  | _ :: r, 0 => v :: r
  | x :: r, S k' => x :: set_nth k' v r
  end.

Fixpoint eq_loop_before_fix (trials : list fn) (h : store) (refs : list nat) : store * res (list nat) :=
  match refs with
  | [] => (h, Ok [])
  | r :: rest =>
      match nth_error h r with
      | None => (h, Err TypeErr)
      | Some i =>
          if negb (mem_fn (a_var (b_attrs i)) trials) then (h, Err ArgsErr) else
          let position := index_fn (a_var (b_attrs i)) trials in
          let i' := set_position i position in
          let h1 := set_nth r i' h in                     (* i.set_position(position) *)
          match b_bnd i' with
          | BUnion l =>
              match expand i' position l with
              | Err e => (h1, Err e)
              | Ok blk => map_ok (app (seq (length h1) (length blk))) (eq_loop_before_fix trials (h1 ++ blk) rest)
              end
          | _ => map_ok (cons r) (eq_loop_before_fix trials h1 rest)   (* newbc += [i] *)
          end
      end
  end.

(* the constructor's arguments *)
Inductive form := FBilinear (id : nat) | FLinear (id : nat) | FOther (id : nat).
Inductive item := IRef (r : nat) | INotBC.       (* an EssentialBC object / any other object *)
Inductive bcarg :=
| ANone                      (* bc=None, or an empty list / tuple: `if bc:` is false *)
| ASingle (i : item)         (* a single object *)
| AList (l : list item).     (* a non-empty list / tuple *)

Record equation := mkEq {
  eq_lhs : form; eq_rhs : form; eq_trials : list fn; eq_tests : list fn;
  eq_bc : option (list nat) }.   (* None: the bc argument is stored as it was given (None / empty) *)

Definition is_ref (i : item) : bool := match i with IRef _ => true | INotBC => false end.
Definition refs_of (l : list item) : list nat :=
  flat_map (fun i => match i with IRef r => [r] | INotBC => [] end) l.

(* returns the store after the call (the given objects are untouched; new objects may
   have been appended) and the equation or the error *)
Definition equation_new (h : store) (lhs rhs : form) (trials tests : list fn) (bc : bcarg)
  : store * res equation :=
  match lhs with
  | FBilinear _ =>
      match rhs with
      | FLinear _ =>
          match bc with
          | ANone => (h, Ok (mkEq lhs rhs trials tests None))
          | ASingle INotBC => (h, Err TypeErr)                         (* 'Wrong type for bc' *)
          | ASingle (IRef r) =>
              match eq_loop trials h [r] with
              | (h2, Err e) => (h2, Err e)
              | (h2, Ok out) => (h2, Ok (mkEq lhs rhs trials tests (Some out)))
              end
          | AList l =>
              if negb (forallb is_ref l) then (h, Err TypeErr)         (* 'Expecting a list of ...' *)
              else match eq_loop trials h (refs_of l) with
                   | (h2, Err e) => (h2, Err e)
                   | (h2, Ok out) => (h2, Ok (mkEq lhs rhs trials tests (Some out)))
                   end
          end
      | _ => (h, Err RhsErr)
      end
  | _ => (h, Err LhsErr)
  end.

(* what an observer reads from eq.bc in a given store *)
Definition read (h : store) (refs : list nat) : list (option ebc) := map (nth_error h) refs.

(* ----------------------------------------------------- boolean equalities *)
(* used by the generated case files to decide agreement between the model and the
   implementation inside Coq *)
Definition opt_beq {A} (f : A -> A -> bool) (a b : option A) : bool :=
  match a, b with
  | None, None => true
  | Some x, Some y => f x y
  | _, _ => false
  end.
Definition face_beq (a b : face) : bool :=
  Nat.eqb (fc_id a) (fc_id b) && String.eqb (fc_str a) (fc_str b) &&
  String.eqb (fc_patch a) (fc_patch b) && Z.eqb (fc_axis a) (fc_axis b) && Z.eqb (fc_ext a) (fc_ext b).
Definition bnd_beq (a b : bnd) : bool :=
  match a, b with
  | BNone, BNone => true
  | BFace f, BFace g => face_beq f g
  | BUnion l, BUnion m => list_beq face_beq l m
  | _, _ => false
  end.
Definition attrs_beq (a b : attrs) : bool :=
  Nat.eqb (a_order a) (a_order b) && fn_beq (a_var a) (a_var b) && Bool.eqb (a_nc a) (a_nc b) &&
  opt_beq (list_beq Nat.eqb) (a_ic a) (a_ic b).
Definition ebc_beq (a b : ebc) : bool :=
  lexpr_eqb (b_lhs a) (b_lhs b) && String.eqb (b_rhs a) (b_rhs b) && bnd_beq (b_bnd a) (b_bnd b) &&
  attrs_beq (b_attrs a) (b_attrs b) && opt_beq Nat.eqb (b_pos a) (b_pos b).
Definition err_beq (a b : err) : bool :=
  match a, b with
  | ValueErr, ValueErr | TypeErr, TypeErr | AssertErr, AssertErr | NotImplErr, NotImplErr
  | ArgsErr, ArgsErr | LhsErr, LhsErr | RhsErr, RhsErr => true
  | _, _ => false
  end.
(* verdict only: accepted with the same value / both refused *)
Definition res_beq {A} (f : A -> A -> bool) (a b : res A) : bool :=
  match a, b with
  | Ok x, Ok y => f x y
  | Err _, Err _ => true
  | _, _ => false
  end.
(* verdict and kind of error *)
Definition res_beq_strict {A} (f : A -> A -> bool) (a b : res A) : bool :=
  match a, b with
  | Ok x, Ok y => f x y
  | Err e, Err e' => err_beq e e'
  | _, _ => false
  end.
Definition form_beq (a b : form) : bool :=
  match a, b with
  | FBilinear x, FBilinear y | FLinear x, FLinear y | FOther x, FOther y => Nat.eqb x y
  | _, _ => false
  end.

(* helpers of the generated case files *)
Definition dummy_bc : ebc :=
  mkBC (EInt 0%Z) "" BNone (mkAttrs 0 (mkFn 0 0 "" false 0) false None) None.
Definition obj (r : res ebc) : ebc := match r with Ok b => b | Err _ => dummy_bc end.

(* eq.bc as an observer reads it (None when the argument was empty) *)
Definition bc_view (h : store) (e : equation) : option (list (option ebc)) :=
  match eq_bc e with None => None | Some out => Some (read h out) end.

(* agreement with what the implementation returned: the conditions of eq.bc, the trial and
   test functions, whether lhs / rhs are the forms that were passed *)
Definition eq_agrees (r : store * res equation) (lhs_in rhs_in : form)
           (exp : res (option (list ebc) * (list fn * list fn) * (bool * bool))) : bool :=
  match r, exp with
  | (_, Err _), Err _ => true
  | (h, Ok e), Ok (bc, (tr, te), (ls, rs)) =>
      opt_beq (list_beq (opt_beq ebc_beq)) (bc_view h e)
              (match bc with None => None | Some l => Some (map Some l) end)
      && list_beq fn_beq (eq_trials e) tr && list_beq fn_beq (eq_tests e) te
      && Bool.eqb (form_beq (eq_lhs e) lhs_in) ls && Bool.eqb (form_beq (eq_rhs e) rhs_in) rs
  | _, _ => false
  end.
Definition eq_err_agrees (r : store * res equation) (e : err) : bool :=
  match r with (_, Err e') => err_beq e e' | (_, Ok _) => false end.

(* which entries of eq.bc are the caller's own objects (store index below n0), which are new *)
Definition alias_agrees (r : store * res equation) (n0 : nat) (exp : list (option nat)) : bool :=
  match r with
  | (_, Ok e) =>
      match eq_bc e with
      | Some out => list_beq (opt_beq Nat.eqb) (map (fun r => if Nat.ltb r n0 then Some r else None) out) exp
      | None => match exp with [] => true | _ => false end
      end
  | (_, Err _) => true
  end.
(* the position attribute of the caller's objects after the call (also after a refused call) *)
Definition inputs_agree (r : store * res equation) (n0 : nat) (exp : list (option nat)) : bool :=
  list_beq (opt_beq Nat.eqb) (map b_pos (firstn n0 (fst r))) exp.
(* eq1.bc re-read in a later store *)
Definition reread_agrees (r1 : store * res equation) (h : store) (exp : list ebc) : bool :=
  match r1 with
  | (_, Ok e) =>
      match eq_bc e with
      | Some out => list_beq (opt_beq ebc_beq) (read h out) (map Some exp)
      | None => match exp with [] => true | _ => false end
      end
  | (_, Err _) => true
  end.
