(* C16, symbolic part: the data type of a catalogue entry (what the real Mapping object stores, read back
   by tools/translate/catalogue.py), generic matrix operations, the normalisation plan (rewriting of
   function nodes with equivalent arguments, trigonometric / square-root relations) and the executable
   coherence check [check_entry].  Definitions only; the soundness proofs are in Proofs/CatalogueP.v. *)
From Coq Require Import String ZArith List Bool Arith.
From V Require Import Core.FieldEq Core.Terminal Core.SExpr.
Import ListNotations.

Record entry := mkEntry {
  e_name : string;
  e_ldim : nat;                              (* logical dimension *)
  e_pdim : nat;                              (* physical dimension *)
  e_expr : list texpr;                       (* coordinate expressions, pdim *)
  e_jac : list (list texpr);                 (* jacobian_expr, pdim x ldim, row major *)
  e_jinv : option (list (list texpr));       (* jacobian_inv_expr, ldim x pdim; None when the object stores None *)
  e_metric : list (list texpr);              (* metric_expr, ldim x ldim *)
  e_mdet : texpr                             (* metric_det_expr *)
}.

(* ------------------------------------------------------------------ matrices over any carrier *)
Section MatOps.
  Variable T : Type.
  Variables (zero one : T) (add mul : T -> T -> T) (opp : T -> T).

  Fixpoint msum (l : list T) : T := match l with [] => zero | x :: r => add x (msum r) end.

  Fixpoint zipmul (a b : list T) : list T :=
    match a, b with x :: r, y :: s => mul x y :: zipmul r s | _, _ => [] end.

  Definition dot (a b : list T) : T := msum (zipmul a b).

  Definition col (j : nat) (M : list (list T)) : list T := map (fun r => nth j r zero) M.

  (* the n columns of M = the rows of its transpose *)
  Definition transpose (n : nat) (M : list (list T)) : list (list T) := map (fun j => col j M) (seq 0 n).

  (* A * B where B has n columns *)
  Definition mmul (n : nat) (A B : list (list T)) : list (list T) :=
    map (fun r => map (fun c => dot r c) (transpose n B)) A.

  Definition identity (n : nat) : list (list T) :=
    map (fun i => map (fun j => if Nat.eqb i j then one else zero) (seq 0 n)) (seq 0 n).

  Fixpoint drop_nth (j : nat) (l : list T) : list T :=
    match l, j with
    | [], _ => []
    | _ :: r, 0 => r
    | x :: r, S j' => x :: drop_nth j' r
    end.

  (* cofactor expansion along the first row; n = size *)
  Fixpoint det (n : nat) (M : list (list T)) : T :=
    match n with
    | 0 => one
    | S n' =>
        match M with
        | [] => zero
        | r0 :: rest =>
            (fix go (j : nat) (pos : bool) (r : list T) : T :=
               match r with
               | [] => zero
               | x :: r' => add (mul (if pos then x else opp x) (det n' (map (drop_nth j) rest)))
                                (go (S j) (negb pos) r')
               end) 0 true r0
        end
    end.

  (* the Gram matrix J^T J of a matrix with n columns *)
  Definition gram (n : nat) (J : list (list T)) : list (list T) := mmul n (transpose n J) J.
End MatOps.

Definition t_mmul := mmul texpr (TZ 0) TAdd TMul.
Definition t_transpose := transpose texpr (TZ 0).
Definition t_identity := identity texpr (TZ 0) (TZ 1).
Definition t_det := det texpr (TZ 0) (TZ 1) TAdd TMul TOpp.
Definition t_gram := gram texpr (TZ 0) TAdd TMul.

(* ------------------------------------------------------------------ shapes *)
Definition has_shape {A} (r c : nat) (M : list (list A)) : bool :=
  Nat.eqb (length M) r && forallb (fun row => Nat.eqb (length row) c) M.

Fixpoint all2 {A B} (f : A -> B -> bool) (a : list A) (b : list B) : bool :=
  match a, b with
  | [], [] => true
  | x :: r, y :: s => f x y && all2 f r s
  | _, _ => false
  end.

Fixpoint sequence {A} (l : list (option A)) : option (list A) :=
  match l with
  | [] => Some []
  | Some x :: r => option_map (cons x) (sequence r)
  | None :: _ => None
  end.

(* the reference Jacobian: d(expression i)/d(logical coordinate j), by the reference derivative tD *)
Definition jac_ref (ldim : nat) (exprs : list texpr) : option (list (list texpr)) :=
  sequence (map (fun x => sequence (map (fun j => tD true j x) (seq 0 ldim))) exprs).

(* ------------------------------------------------------------------ the normalisation plan *)
(* Function nodes are opaque atoms of the field checker and are identified syntactically.  sympy writes
   the same argument in several forms (eps*(eps+2*x1*cos(x2))+1 and eps**2+2*eps*x1*cos(x2)+1) and moves
   square factors out of roots (1/sqrt(1-eps**2/4) -> 2/sqrt(4-eps**2)).  A plan lists rewriting rules for
   such nodes and polynomial relations for the remaining ones; every rule is VALIDATED by the verified
   checker ([rule_valid]) before it is used, so the plan generator itself is not trusted. *)
Inductive rule :=
| RCong (f : fname) (b a : texpr)                 (* f(b) -> f(a)            when b == a *)
| RScaleUp (k : positive) (b a : texpr)           (* sqrt(b) -> k * sqrt(a)  when b == k^2 * a *)
| RScaleDown (k : positive) (b a : texpr).        (* sqrt(b) -> sqrt(a) / k  when k^2 * b == a *)

Definition ksq (k : positive) : texpr := TZ (Zpos (k * k)).

Definition rule_lhs (r : rule) : texpr :=
  match r with
  | RCong f b _ => TFn f b
  | RScaleUp _ b _ | RScaleDown _ b _ => TFn Fsqrt b
  end.

Definition rule_rhs (r : rule) : texpr :=
  match r with
  | RCong f _ a => TFn f a
  | RScaleUp k _ a => TMul (TZ (Zpos k)) (TFn Fsqrt a)
  | RScaleDown k _ a => TDiv (TFn Fsqrt a) (TZ (Zpos k))
  end.

Definition rule_valid (r : rule) : bool :=
  match r with
  | RCong _ b a => tequiv b a
  | RScaleUp k b a => tequiv b (TMul (ksq k) a)
  | RScaleDown k b a => tequiv (TMul (ksq k) b) a
  end.

Inductive hyp :=
| HTrig (a : texpr)        (* sin(a)^2 = 1 - cos(a)^2 *)
| HSqrt (a : texpr).       (* sqrt(a)^2 = a *)

Definition hyp_pair (h : hyp) : texpr * texpr :=
  match h with
  | HTrig a => (TPowN (TFn Fsin a) 2, TSub (TZ 1) (TPowN (TFn Fcos a) 2))
  | HSqrt a => (TPowN (TFn Fsqrt a) 2, a)
  end.

Record plan := mkPlan { p_rules : list rule; p_hyps : list hyp }.

Fixpoint lookup (t : texpr) (rs : list rule) : option texpr :=
  match rs with
  | [] => None
  | r :: rest => if texpr_eqb t (rule_lhs r) then Some (rule_rhs r) else lookup t rest
  end.

(* top-down: a node that matches a rule is replaced (the replacement is not rewritten again) *)
Fixpoint rewrite (rs : list rule) (t : texpr) : texpr :=
  match t with
  | TZ _ | TQ _ _ | TAt _ => t
  | TAdd a b => TAdd (rewrite rs a) (rewrite rs b)
  | TSub a b => TSub (rewrite rs a) (rewrite rs b)
  | TMul a b => TMul (rewrite rs a) (rewrite rs b)
  | TDiv a b => TDiv (rewrite rs a) (rewrite rs b)
  | TOpp a => TOpp (rewrite rs a)
  | TInv a => TInv (rewrite rs a)
  | TPowN a n => TPowN (rewrite rs a) n
  | TFn f a => match lookup t rs with Some r => r | None => TFn f (rewrite rs a) end
  | TPowG b e => TPowG (rewrite rs b) (rewrite rs e)
  end.

Definition plan_valid (P : plan) : bool := forallb rule_valid (p_rules P).

(* equality modulo the plan: a [true] is a proof (Proofs/CatalogueP.v, teq_sound) *)
Definition teq (P : plan) (a b : texpr) : bool :=
  tequiv_hyps (map hyp_pair (p_hyps P)) (rewrite (p_rules P) a) (rewrite (p_rules P) b).

(* ------------------------------------------------------------------ plan generator (heuristic, untrusted) *)
Fixpoint fnodes (t : texpr) : list texpr :=
  match t with
  | TZ _ | TQ _ _ | TAt _ => []
  | TAdd a b | TSub a b | TMul a b | TDiv a b | TPowG a b => fnodes a ++ fnodes b
  | TOpp a | TInv a | TPowN a _ => fnodes a
  | TFn _ a => t :: fnodes a
  end.

Fixpoint mem_t (t : texpr) (l : list texpr) : bool :=
  match l with [] => false | x :: r => texpr_eqb t x || mem_t t r end.

Fixpoint dedupe (l : list texpr) (acc : list texpr) : list texpr :=   (* keeps first occurrences; result reversed into acc order *)
  match l with
  | [] => rev acc
  | x :: r => if mem_t x acc then dedupe r acc else dedupe r (x :: acc)
  end.

Definition pexprable (a : texpr) : bool :=
  match to_pexpr [] a with Some _ => true | None => false end.

Definition fn_arg (t : texpr) : texpr := match t with TFn _ a => a | _ => t end.
Definition fn_is (f : fname) (t : texpr) : bool := match t with TFn g _ => fname_eqb f g | _ => false end.

Fixpoint first_equiv (b : texpr) (tbl : list texpr) : texpr :=
  match tbl with
  | [] => b
  | a :: r => if tequiv b a then a else first_equiv b r
  end.

Definition scale_candidates : list positive := [2; 3; 4; 5; 6; 7; 8; 9; 10]%positive.

(* is sqrt(b) a rational multiple of sqrt(a) for an accepted representative a ? *)
Fixpoint find_scale_k (b a : texpr) (ks : list positive) : option (bool * positive) :=
  match ks with
  | [] => None
  | k :: r =>
      if tequiv b (TMul (ksq k) a) then Some (true, k)
      else if tequiv (TMul (ksq k) b) a then Some (false, k)
      else find_scale_k b a r
  end.

Fixpoint find_scale (b : texpr) (reps : list texpr) : option (bool * positive * texpr) :=
  match reps with
  | [] => None
  | a :: r =>
      match find_scale_k b a scale_candidates with
      | Some (up, k) => Some (up, k, a)
      | None => find_scale b r
      end
  end.

(* among the canonical sqrt arguments: accepted representatives and the scale relation of the others *)
Fixpoint sqrt_reps (args : list texpr) (reps : list texpr) (rel : list (texpr * (bool * positive * texpr)))
  : list texpr * list (texpr * (bool * positive * texpr)) :=
  match args with
  | [] => (rev reps, rel)
  | b :: r =>
      match find_scale b reps with
      | Some s => sqrt_reps r reps ((b, s) :: rel)
      | None => sqrt_reps r (b :: reps) rel
      end
  end.

Fixpoint assoc_t {B} (t : texpr) (l : list (texpr * B)) : option B :=
  match l with
  | [] => None
  | (x, v) :: r => if texpr_eqb t x then Some v else assoc_t t r
  end.

Definition mkplan_terms (ts : list texpr) : plan :=
  let nodes := dedupe (flat_map fnodes ts) [] in
  let args0 := dedupe (map fn_arg nodes) [] in
  (* integer-coefficient polynomial arguments first: they can carry a sqrt relation *)
  let args := filter pexprable args0 ++ filter (fun a => negb (pexprable a)) args0 in
  let canon := fun b => first_equiv b args in
  let sq_args := dedupe (map (fun t => canon (fn_arg t)) (filter (fn_is Fsqrt) nodes)) [] in
  let sq_sorted := filter pexprable sq_args ++ filter (fun a => negb (pexprable a)) sq_args in
  let '(reps, rel) := sqrt_reps sq_sorted [] [] in
  let rule_of := fun t =>
    match t with
    | TFn f b =>
        let a := canon b in
        match (if fname_eqb f Fsqrt then assoc_t a rel else None) with
        | Some (true, k, a') => [RScaleUp k b a']
        | Some (false, k, a') => [RScaleDown k b a']
        | None => if texpr_eqb a b then [] else [RCong f b a]
        end
    | _ => []
    end in
  let trig_args := dedupe (map (fun t => canon (fn_arg t))
                               (filter (fun t => fn_is Fsin t || fn_is Fcos t) nodes)) [] in
  mkPlan (flat_map rule_of nodes)
         (map HTrig trig_args ++ map HSqrt (filter pexprable reps)).

Definition entry_terms (e : entry) : list texpr :=
  e_expr e ++ concat (e_jac e) ++ match e_jinv e with Some m => concat m | None => [] end
  ++ concat (e_metric e) ++ [e_mdet e].

Definition mkplan (e : entry) : plan := mkplan_terms (entry_terms e).

(* ------------------------------------------------------------------ the four coherence checks *)
Definition chk_shape (e : entry) : bool :=
  Nat.eqb (length (e_expr e)) (e_pdim e) && Nat.leb (e_ldim e) (e_pdim e) &&
  has_shape (e_pdim e) (e_ldim e) (e_jac e) &&
  has_shape (e_ldim e) (e_ldim e) (e_metric e) &&
  match e_jinv e with
  | Some m => Nat.eqb (e_ldim e) (e_pdim e) && has_shape (e_ldim e) (e_pdim e) m
  | None => Nat.ltb (e_ldim e) (e_pdim e)       (* no inverse is stored exactly for the non-square mappings *)
  end.

(* (i) stored Jacobian == derivative of the coordinate expressions *)
Definition chk_jac (P : plan) (e : entry) : bool :=
  match jac_ref (e_ldim e) (e_expr e) with
  | Some R => all2 (all2 (teq P)) (e_jac e) R
  | None => false
  end.

(* (ii) J * Jinv == identity and Jinv * J == identity *)
Definition chk_inv (P : plan) (e : entry) : bool :=
  match e_jinv e with
  | Some Ji => all2 (all2 (teq P)) (t_mmul (e_pdim e) (e_jac e) Ji) (t_identity (e_pdim e))
               && all2 (all2 (teq P)) (t_mmul (e_ldim e) Ji (e_jac e)) (t_identity (e_ldim e))
  | None => true
  end.

(* (iii) metric == J^T J *)
Definition chk_metric (P : plan) (e : entry) : bool :=
  all2 (all2 (teq P)) (e_metric e) (t_gram (e_ldim e) (e_jac e)).

(* (iv) metric_det == det (J^T J) *)
Definition chk_mdet (P : plan) (e : entry) : bool :=
  teq P (e_mdet e) (t_det (e_ldim e) (t_gram (e_ldim e) (e_jac e))).

Definition check_parts (e : entry) : list bool :=
  let P := mkplan e in
  [chk_shape e && plan_valid P; chk_jac P e; chk_inv P e; chk_metric P e; chk_mdet P e].

Definition check_entry (e : entry) : bool := forallb (fun b => b) (check_parts e).

(* ------------------------------------------------------------------ classes that supply their own matrices *)
(* Mapping.__new__ has four arms on the class attributes _jac / _inv_jac (string matrices, read like the coordinate
   expressions: parameters, real logical coordinates, physical coordinates replaced by the expressions):
     neither : J := d expr,   Jinv := J^-1 (square)          both    : J := given, Jinv := given (nothing derived)
     _jac    : J := given,    Jinv := J^-1 (square)          _inv_jac: Jinv := given, J := Jinv^-1
   and in every arm  metric := J^T J,  metric_det := det metric  of the STORED J.  Nothing validates the supplied
   matrix against the expressions: the object exposes what it was given and what is derived from it. *)
Inductive supplied :=
| SupNone
| SupJac (J : list (list texpr))
| SupInv (Ji : list (list texpr))
| SupBoth (J Ji : list (list texpr)).

Definition supplied_terms (s : supplied) : list texpr :=
  match s with
  | SupNone => []
  | SupJac J => concat J
  | SupInv Ji => concat Ji
  | SupBoth J Ji => concat J ++ concat Ji
  end.

Definition mkplan_sup (e : entry) (s : supplied) : plan := mkplan_terms (entry_terms e ++ supplied_terms s).

Definition same_mat (P : plan) (A B : list (list texpr)) : bool := all2 (all2 (teq P)) A B.

Definition same_inv (P : plan) (e : entry) (Gi : list (list texpr)) : bool :=
  match e_jinv e with Some m => same_mat P m Gi | None => false end.

(* the stored matrix of the arm is the supplied one (arm "neither": the derivative of the expressions) *)
Definition chk_supplied (P : plan) (s : supplied) (e : entry) : bool :=
  match s with
  | SupNone => chk_jac P e
  | SupJac G => same_mat P (e_jac e) G
  | SupInv Gi => same_inv P e Gi
  | SupBoth G Gi => same_mat P (e_jac e) G && same_inv P e Gi
  end.

(* the arm computes one of J, Jinv from the other one *)
Definition derives_inverse (s : supplied) : bool := match s with SupBoth _ _ => false | _ => true end.

(* [plan/shape; stored = supplied; J Jinv = I; metric = J^T J; det; J = d expr]: the first five are what the code
   guarantees in the arm (the third one except in the arm "both"), the last one holds iff the class is consistent *)
Definition check_supplied_parts (s : supplied) (e : entry) : list bool :=
  let P := mkplan_sup e s in
  [chk_shape e && plan_valid P; chk_supplied P s e; chk_inv P e; chk_metric P e; chk_mdet P e; chk_jac P e].

Definition check_supplied (s : supplied) (e : entry) : bool :=
  let P := mkplan_sup e s in
  chk_shape e && plan_valid P && chk_supplied P s e && (negb (derives_inverse s) || chk_inv P e)
  && chk_metric P e && chk_mdet P e.

Definition mk_sup (jac jinv : option (list (list sx))) : supplied :=
  match jac, jinv with
  | None, None => SupNone
  | Some J, None => SupJac (map (map sx2t) J)
  | None, Some Ji => SupInv (map (map sx2t) Ji)
  | Some J, Some Ji => SupBoth (map (map sx2t) J) (map (map sx2t) Ji)
  end.

(* (0) the coordinate expressions are the pinned reference definitions of the named mapping
   (Model/CatalogueRefM.v): compared modulo the field axioms and the relations of a plan computed over both
   sides, so an equivalent rewriting of an expression string is accepted and a changed coefficient is not.
   An entry whose name has no reference (a new class) is accepted: it is listed as unpinned by the check. *)
Fixpoint lookup_ref (name : string) (tbl : list (string * list texpr)) : option (list texpr) :=
  match tbl with
  | [] => None
  | (n, r) :: rest => if String.eqb name n then Some r else lookup_ref name rest
  end.

Definition chk_ref (tbl : list (string * list texpr)) (e : entry) : bool :=
  match lookup_ref (e_name e) tbl with
  | None => true
  | Some r => let P := mkplan_terms (e_expr e ++ r) in plan_valid P && all2 (teq P) (e_expr e) r
  end.

(* building an entry from sympy-shaped trees (what the translator writes) *)
Definition mk_entry (name : string) (ldim pdim : nat) (ex : list sx) (jac : list (list sx))
           (jinv : option (list (list sx))) (metric : list (list sx)) (mdet : sx) : entry :=
  mkEntry name ldim pdim (map sx2t ex) (map (map sx2t) jac) (option_map (map (map sx2t)) jinv)
          (map (map sx2t) metric) (sx2t mdet).
