(* Executable model of the lowering of forms to kernels (C06), arm for arm after
     sympde/expr/expr.py        Integral.__new__, IntAdd.__new__, the operators of Integral / IntAdd
                                (__mul__ __rmul__ __div__ __rdiv__ __neg__ __add__ __radd__, add_int / Expr.__sub__),
                                Functional/LinearForm/BilinearForm (_get_domain)
     sympde/expr/evaluation.py  _unpack_functions, _get_trials_tests, _to_matrix_form,
                                TerminalExpr.eval (BasicForm arm: on constructed forms [lower_form], on any form
                                object [lower_rform]), KernelExpression
   Integrands are terminal scalar expressions ([texpr]): the lowering of the integrand itself
   (TerminalExpr on expressions) is C01's subject and is taken from the implementation.
   The scalar components of the test / trial functions are the field atoms
   [AFld _ f c _ _] of known (name, component) pairs.  No proofs here. *)
From Coq Require Import String Ascii ZArith List Bool Arith.
From V Require Import Core.Terminal Core.SExpr Core.Canon.
Import ListNotations.
Open Scope string_scope.

(* ------------------------------------------------------------------ regions *)
(* what an Integral can carry as its domain once it is constructed *)
Inductive region :=
| RPatch (p : string)                              (* InteriorDomain / NCubeInterior: interior of patch p *)
| RFace (p : string) (axis : nat) (ext : bool)     (* Boundary of an NCube patch: ext false = -1, true = +1 *)
| RBnd (p : string) (n : string)                   (* a named Boundary of a patch without axis / ext *)
| RIface (mp : string) (ma : nat) (me : bool) (pp : string) (pa : nat) (pe : bool).  (* Interface minus|plus *)

Definition region_eqb (a b : region) : bool :=
  match a, b with
  | RPatch p, RPatch q => String.eqb p q
  | RFace p a e, RFace q b f => String.eqb p q && Nat.eqb a b && Bool.eqb e f
  | RBnd p n, RBnd q m => String.eqb p q && String.eqb n m
  | RIface a1 a2 a3 a4 a5 a6, RIface b1 b2 b3 b4 b5 b6 =>
      String.eqb a1 b1 && Nat.eqb a2 b2 && Bool.eqb a3 b3 && String.eqb a4 b4 && Nat.eqb a5 b5 && Bool.eqb a6 b6
  | _, _ => false
  end.

(* an injective printing of regions (sorting key of the canonical sets; the order itself is
   immaterial here, C14 is about str-sorted unions) *)
Fixpoint rep (n : nat) (tail : string) : string :=
  match n with 0 => tail | S k => String "i"%char (rep k tail) end.
Definition sgn (b : bool) (tail : string) : string := String (if b then "+"%char else "-"%char) tail.
Definition named (p : string) (tail : string) : string := rep (String.length p) (String ":"%char (p ++ tail)).
Definition face_key (p : string) (a : nat) (e : bool) (tail : string) : string := rep a (sgn e (named p tail)).
Definition rkey (r : region) : string :=
  match r with
  | RPatch p => String "P"%char p
  | RFace p a e => String "F"%char (face_key p a e "")
  | RBnd p n => String "B"%char (named p n)
  | RIface mp ma me pp pa pe => String "I"%char (face_key mp ma me (face_key pp pa pe ""))
  end.

Definition is_iface (r : region) : bool := match r with RIface _ _ _ _ _ _ => true | _ => false end.

(* the class of the kernel a region gets *)
Inductive kclass := KDomain | KBoundary | KInterface.
Definition kclass_of (r : region) : kclass :=
  match r with RPatch _ => KDomain | RFace _ _ _ | RBnd _ _ => KBoundary | RIface _ _ _ _ _ _ => KInterface end.

(* what the user passes to integral(...) *)
Inductive dom :=
| DReg (r : region)              (* an InteriorDomain / Boundary / Interface *)
| DUnion (l : list region)       (* Union(...) : canonical list of such (C14) *)
| DDomain (ps : list string).    (* a Domain: its interior is the (union of the) patch interiors *)

Definition members (d : dom) : list region :=
  match d with DReg r => [r] | DUnion l => l | DDomain ps => map RPatch ps end.

Definition rcanon (l : list region) : list region := canon region_eqb rkey l.

(* ----------------------------------------------------- functions and components *)
Definition comp := (string * nat)%type.          (* (name, c): c = 0 scalar, c = i+1 component i *)
Inductive func := FScalar (name : string) | FVector (name : string) (dim : nat).

(* _unpack_functions *)
Definition unpack1 (f : func) : list comp :=
  match f with
  | FScalar n => [(n, 0)]
  | FVector n d => map (fun j => (n, S j)) (seq 0 d)
  end.
Definition unpack (ls : list func) : list comp := flat_map unpack1 ls.

Definition comp_eqb (a b : comp) : bool := String.eqb (fst a) (fst b) && Nat.eqb (snd a) (snd b).
Definition in_comps (cs : list comp) (f : string) (c : nat) : bool := existsb (comp_eqb (f, c)) cs.
Definition is_comp_atom (cs : list comp) (a : atom) : bool :=
  match a with AFld _ f c _ _ => in_comps cs f c | _ => false end.

Inductive fkind :=
| KBilinear (trials tests : list func)
| KLinear (tests : list func)
| KFunctional.

(* _get_trials_tests(expr, flatten=True); None is modelled by [] (only truthiness is used) *)
Definition get_trials_tests (k : fkind) : list comp * list comp :=
  match k with
  | KBilinear us vs => (unpack us, unpack vs)
  | KLinear vs => ([], unpack vs)
  | KFunctional => ([], [])
  end.

(* ---------------------------------------------------------------- _to_matrix_form *)
(* expr.subs({a: 0 for the atoms selected by P}): derivative atoms of a zeroed component vanish *)
Fixpoint zero_out (P : atom -> bool) (e : texpr) : texpr :=
  match e with
  | TZ _ | TQ _ _ => e
  | TAt a => if P a then TZ 0 else e
  | TAdd a b => TAdd (zero_out P a) (zero_out P b)
  | TSub a b => TSub (zero_out P a) (zero_out P b)
  | TMul a b => TMul (zero_out P a) (zero_out P b)
  | TDiv a b => TDiv (zero_out P a) (zero_out P b)
  | TOpp a => TOpp (zero_out P a)
  | TInv a => TInv (zero_out P a)
  | TPowN a n => TPowN (zero_out P a) n
  | TFn f a => TFn f (zero_out P a)
  | TPowG b x => TPowG (zero_out P b) (zero_out P x)
  end.

(* removal of the minus / plus restrictions (not on an interface) *)
Definition strip_atom (a : atom) : atom :=
  match a with AFld lg f c _ al => AFld lg f c SNone al | _ => a end.
Fixpoint strip_sides (e : texpr) : texpr :=
  match e with
  | TZ _ | TQ _ _ => e
  | TAt a => TAt (strip_atom a)
  | TAdd a b => TAdd (strip_sides a) (strip_sides b)
  | TSub a b => TSub (strip_sides a) (strip_sides b)
  | TMul a b => TMul (strip_sides a) (strip_sides b)
  | TDiv a b => TDiv (strip_sides a) (strip_sides b)
  | TOpp a => TOpp (strip_sides a)
  | TInv a => TInv (strip_sides a)
  | TPowN a n => TPowN (strip_sides a) n
  | TFn f a => TFn f (strip_sides a)
  | TPowG b x => TPowG (strip_sides b) (strip_sides x)
  end.

(* {v : 0 for v in tests if v != test} *)
Definition others (cs : list comp) (c : comp) : list comp := filter (fun x => negb (comp_eqb x c)) cs.

Definition row_part (tests : list comp) (e : texpr) (t : comp) : texpr :=
  zero_out (is_comp_atom (others tests t)) e.
Definition entry (trials tests : list comp) (e : texpr) (t u : comp) : texpr :=
  zero_out (is_comp_atom (others trials u)) (row_part tests e t).

Definition matrix := list (list texpr).

Definition to_matrix_form (on_iface : bool) (trials tests : list comp) (e0 : texpr) : matrix :=
  let e := if on_iface then e0 else strip_sides e0 in
  match trials, tests with
  | _ :: _, _ :: _ => map (fun t => map (fun u => entry trials tests e t u) trials) tests   (* bilinear *)
  | _, _ :: _ => map (fun t => [row_part tests e t]) tests                                   (* linear: a column *)
  | _, _ => [[e]]                                                                            (* functional *)
  end.

(* Matrix + Matrix, entry-wise *)
Fixpoint radd (a b : list texpr) : list texpr :=
  match a, b with x :: r, y :: s => TAdd x y :: radd r s | _, _ => [] end.
Fixpoint madd (a b : matrix) : matrix :=
  match a, b with x :: r, y :: s => radd x y :: madd r s | _, _ => [] end.

(* ------------------------------------------------------------- insertion-ordered dicts *)
Section Dict.
  Context {K V : Type}.
  Variable keqb : K -> K -> bool.

  (* d[k] = f(d.get(k)) keeping the position of an existing key, appending a new one *)
  Fixpoint dict_upd (k : K) (f : option V -> V) (d : list (K * V)) : list (K * V) :=
    match d with
    | [] => [(k, f None)]
    | (k', v) :: r => if keqb k k' then (k', f (Some v)) :: r else (k', v) :: dict_upd k f r
    end.

  Fixpoint dict_get (k : K) (d : list (K * V)) : option V :=
    match d with [] => None | (k', v) :: r => if keqb k k' then Some v else dict_get k r end.

  Fixpoint dict_del (k : K) (d : list (K * V)) : list (K * V) :=
    match d with [] => [] | (k', v) :: r => if keqb k k' then r else (k', v) :: dict_del k r end.
End Dict.

(* ------------------------------------------------------ scalar arithmetic on integrands *)
(* what an arithmetic operator of Integral / IntAdd does to every integrand *)
Inductive wrap :=
| WMulL (c : texpr)      (* c * I : Integral.__rmul__ builds expr*o; sympy's product is commutative *)
| WMulR (c : texpr)      (* I * c *)
| WDiv (c : texpr)       (* I / c *)
| WRDiv (c : texpr)      (* c / I : __rdiv__ is written like __div__, the result is I / c *)
| WNeg.                  (* - I *)
Definition wapp (w : wrap) (e : texpr) : texpr :=
  match w with
  | WMulL c => TMul c e
  | WMulR c => TMul e c
  | WDiv c | WRDiv c => TDiv e c
  | WNeg => TOpp e
  end.
(* the operators met on the way from the root of the tree to an integral, outermost first *)
Definition wapps (ws : list wrap) (e : texpr) : texpr := fold_right wapp e ws.

(* --------------------------------------------------- Integral / IntAdd / form objects *)
Section Lower.
  (* `x == 0` on a sympy expression: what sympy's automatic evaluation reduced to the number 0 *)
  Variable isz : texpr -> bool.

  Definition iterm := (region * texpr)%type.     (* an Integral object: (domain, integrand) *)

  (* IntAdd.__new__ on the flattened argument list *)
  Definition intadd (l : list iterm) : list iterm :=
    let l' := filter (fun x => negb (isz (snd x))) l in                (* newargs: a == 0 removed *)
    let doms := rcanon (map fst l') in                                  (* list(set(i.domain ...)) *)
    let groups := map (fun d => (d, tsum (map snd (filter (fun x => region_eqb (fst x) d) l')))) doms in
    filter (fun g => negb (isz (snd g))) groups.                        (* Integral(0, d) is 0: dropped by Add *)

  (* Integral.__new__ *)
  Definition integral (d : dom) (e : texpr) : list iterm :=
    if isz e then [] else
    match d with
    | DReg r => [(r, e)]
    | DUnion l => intadd (map (fun r => (r, e)) l)
    | DDomain ps => intadd (map (fun p => (RPatch p, e)) ps)
    end.

  (* what the user writes: integral(d, e), the number 0, +, and the scalar arithmetic of integrals.
     Every operator of Integral / IntAdd rebuilds the integrals with the new integrands and re-groups them:
       c * I, I * c    Integral.__mul__ / __rmul__ : Integral(expr*o, domain);  IntAdd.__mul__ / __rmul__ : IntAdd( *[a*o ..])
       I / c           Integral.__div__ : Integral(expr/o, domain);             IntAdd.__div__ : IntAdd( *[a/o ..])
       c / I           Integral.__rdiv__ / IntAdd.__rdiv__ : the code computes  I / c  as well (sic)
       - I             Integral.__neg__ : Integral(-expr, domain);  -IntAdd = Add( *[-a ..]) -> add_int -> IntAdd
       a - b           Expr.__sub__ : Add(a, -b) -> add_int -> IntAdd
       0 + I, I + 0    Integral.__radd__ / __add__ : `return self`; sum([..]) starts from the number 0 *)
  Inductive iexpr :=
  | IInt (d : dom) (e : texpr)
  | IAdd (a b : iexpr)
  | IZero
  | IWrap (w : wrap) (x : iexpr).

  Definition ISub (a b : iexpr) : iexpr := IAdd a (IWrap WNeg b).
  (* Python's sum([x1; ..; xn]) = ((0 + x1) + ..) + xn *)
  Definition ISum (l : list iexpr) : iexpr := fold_left IAdd l IZero.

  (* a * o / a / o / -a for every Integral a of the list, then IntAdd (an Integral whose new integrand is 0 is the
     number 0 and is dropped; a single remaining Integral is returned as such) *)
  Definition iwrap (w : wrap) (l : list iterm) : list iterm :=
    intadd (map (fun t => (fst t, wapp w (snd t))) l).

  Fixpoint ieval (x : iexpr) : list iterm :=
    match x with
    | IInt d e => integral d e
    | IAdd a b => intadd (ieval a ++ ieval b)       (* Integral.__add__ / IntAdd flattening; with [] (the number 0) this
                                                       is `return self` up to the order of the arguments *)
    | IZero => []
    | IWrap w a => iwrap w (ieval a)
    end.

  (* a form object: its kind, its `domain` property (members), the args of its expr *)
  Record form := mkForm { f_kind : fkind; f_domain : list region; f_expr : list iterm }.

  (* BilinearForm / LinearForm (arguments, expr): a null expression gives the number 0, not a form;
     _domain = _get_domain(expr) = Union of the domains of the integrals *)
  Definition mk_form (k : fkind) (x : iexpr) : option form :=
    let fe := ieval x in
    match fe with
    | [] => None
    | _ => Some (mkForm k (rcanon (map fst fe)) fe)
    end.

  (* Functional(expr, domain): expr = Integral(expr, domain.interior), _domain = domain.interior *)
  Definition mk_functional (d : dom) (e : texpr) : form :=
    mkForm KFunctional (rcanon (members d)) (integral d e).

  (* ------------------------------------------------ TerminalExpr.eval, BasicForm arm *)
  (* d_expr: None stands for S.Zero; 0 + Integral = Integral, Integral + Integral = IntAdd *)
  Definition dexpr_add (r : region) (e : texpr) (d : list (region * option texpr)) :=
    dict_upd region_eqb r
      (fun old => match old with
                  | None | Some None => Some e
                  | Some (Some x) => let s := TAdd x e in if isz s then None else Some s
                  end) d.
  Definition dexpr_set (r : region) (e : option texpr) (d : list (region * option texpr)) :=
    dict_upd region_eqb r (fun _ => e) d.

  Definition d_expr_of (f : form) : list (region * option texpr) :=
    let d0 := map (fun r => (r, @None texpr)) (f_domain f) in
    match f_expr f with
    | (_ :: _ :: _) as args =>                                   (* isinstance(expr.expr, Add) *)
        fold_left (fun d a => dexpr_add (fst a) (snd a) d) args d0
    | single =>
        let e := match single with [(_, e)] => Some e | _ => None end in
        let doms := match f_kind f, single with
                    | KFunctional, _ => f_domain f              (* domains = expr.domain *)
                    | _, [(r, _)] => [r]                        (* _get_domain(expr.expr) *)
                    | _, _ => []
                    end in
        fold_left (fun d r => dexpr_set r e d) doms d0
    end.

  Definition mzero (trials tests : list comp) : matrix :=
    to_matrix_form false trials tests (TZ 0).

  (* domain.interior of a key that is not a Boundary / Interface / InteriorDomain *)
  Definition interior_of (d : dom) : option dom :=
    match d with
    | DReg r => Some (DReg r)
    | DDomain [p] => Some (DReg (RPatch p))
    | DDomain ps => Some (DUnion (map RPatch ps))
    | DUnion _ => None                                          (* a Union has no interior attribute *)
    end.

  Definition dom_eqb (a b : dom) : bool :=
    match a, b with
    | DReg r, DReg s => region_eqb r s
    | DUnion l, DUnion m => (fix go (l m : list region) := match l, m with
                                                           | [], [] => true
                                                           | x :: r, y :: s => region_eqb x y && go r s
                                                           | _, _ => false end) l m
    | DDomain p, DDomain q => (fix go (l m : list string) := match l, m with
                                                             | [], [] => true
                                                             | x :: r, y :: s => String.eqb x y && go r s
                                                             | _, _ => false end) p q
    | _, _ => false
    end.
  Definition is_union (d : dom) : bool := match d with DUnion _ => true | _ => false end.

  (* "treating subdomains": kernels keyed by a Union are handed to every member *)
  Definition dnew_add (k : dom) (m : matrix) (d : list (dom * matrix)) : list (dom * matrix) :=
    dict_upd dom_eqb k (fun old => match old with None => m | Some m0 => madd m0 m end) d.

  Fixpoint dist_loop (keys : list dom) (d : list (dom * matrix)) : list (dom * matrix) :=
    match keys with
    | [] => d
    | k :: ks =>
        match dict_get dom_eqb k d with
        | Some m => dist_loop ks (fold_left (fun d r => dnew_add (DReg r) m d) (members k) (dict_del dom_eqb k d))
        | None => dist_loop ks d
        end
    end.
  Definition distribute (d : list (dom * matrix)) : list (dom * matrix) :=
    dist_loop (filter is_union (map fst d)) d.

  (* the final loop: one Boundary- / DomainExpression per key; any other key is a TypeError *)
  Fixpoint kernels_of (d : list (dom * matrix)) : option (list (region * matrix)) :=
    match d with
    | [] => Some []
    | (DReg r, m) :: rest => option_map (cons (r, m)) (kernels_of rest)
    | _ => None
    end.

  (* None = outside this model: an interface integral (C07) or a TypeError of the code *)
  Definition lower_form (f : form) : option (list (region * matrix)) :=
    let d_expr := d_expr_of f in
    if existsb (fun kv => is_iface (fst kv)) d_expr then None else
    let (trials, tests) := get_trials_tests (f_kind f) in
    let d_new :=
      flat_map (fun kv : region * option texpr =>
                  match snd kv with
                  | None => []
                  | Some a => if isz a then [] else
                              [(DReg (fst kv), to_matrix_form (is_iface (fst kv)) trials tests a)]
                  end) d_expr in
    match d_new with
    | [] =>
        (* corner case: the expression is zero; the first region gets a zero kernel *)
        match d_expr with
        | [] => Some []
        | (r, _) :: _ => Some [(r, mzero trials tests)]
        end
    | _ => kernels_of (distribute d_new)
    end.

  (* TerminalExpr(LinearForm/BilinearForm(args, expr), domain): a null expression is the number 0 *)
  Inductive lowered := LZero | LKernels (ks : list (region * matrix)) | LUnmodelled.
  Definition lower (k : fkind) (x : iexpr) : lowered :=
    match mk_form k x with
    | None => LZero
    | Some f => match lower_form f with Some ks => LKernels ks | None => LUnmodelled end
    end.
  Definition lower_functional (d : dom) (e : texpr) : lowered :=
    match lower_form (mk_functional d e) with Some ks => LKernels ks | None => LUnmodelled end.

  (* --------------------------------- TerminalExpr.eval on a form object with non-atomic domain entries *)
  (* The constructors (Integral.__new__, Functional.__new__, _get_domain) only ever produce form objects whose `domain`
     lists InteriorDomains / Boundaries / Interfaces, so that every key of d_new is atomic and the block "treating
     subdomains" is the identity ([lower_form] above, distribute_atomic).  The BasicForm arm itself is written for more
     general objects: an entry of `expr.domain` may be a Domain, whose `interior` is an InteriorDomain or a Union of
     them; the kernel is then keyed by that interior and a Union key is handed to its members, accumulating into a
     kernel that is already there.  [rform] is such an object: its domain entries are [dom]s. *)
  Record rform := mkRForm { rf_kind : fkind; rf_domain : list dom; rf_expr : list iterm }.

  Definition rd_add (k : dom) (e : texpr) (d : list (dom * option texpr)) :=
    dict_upd dom_eqb k
      (fun old => match old with
                  | None | Some None => Some e
                  | Some (Some x) => let s := TAdd x e in if isz s then None else Some s
                  end) d.
  Definition rd_set (k : dom) (e : option texpr) (d : list (dom * option texpr)) :=
    dict_upd dom_eqb k (fun _ => e) d.

  Definition rd_expr_of (f : rform) : list (dom * option texpr) :=
    let d0 := map (fun k => (k, @None texpr)) (rf_domain f) in    (* expr.domain is a Union: no repetitions *)
    match rf_expr f with
    | (_ :: _ :: _) as args =>
        fold_left (fun d a => rd_add (DReg (fst a)) (snd a) d) args d0
    | single =>
        let e := match single with [(_, e)] => Some e | _ => None end in
        let doms := match rf_kind f, single with
                    | KFunctional, _ => rf_domain f
                    | _, [(r, _)] => [DReg r]
                    | _, _ => []
                    end in
        fold_left (fun d k => rd_set k e d) doms d0
    end.

  Definition key_iface (k : dom) : bool := match k with DReg r => is_iface r | _ => false end.

  (* d_new[domain.interior] = _to_matrix_form(..): a plain assignment; None = a key without `interior` *)
  Definition rd_new_step (trials tests : list comp) (acc : option (list (dom * matrix))) (kv : dom * option texpr) :=
    match acc, snd kv with
    | None, _ => None
    | Some d, None => Some d
    | Some d, Some a =>
        if isz a then Some d else
        match interior_of (fst kv) with
        | Some k' => Some (dict_upd dom_eqb k' (fun _ => to_matrix_form false trials tests a) d)
        | None => None
        end
    end.
  Definition rd_new_of (f : rform) : option (list (dom * matrix)) :=
    let (trials, tests) := get_trials_tests (rf_kind f) in
    fold_left (rd_new_step trials tests) (rd_expr_of f) (Some []).

  Definition atomic_key (k : dom) : bool := match k with DReg _ => true | _ => false end.

  (* the targets are [dom]s: in the corner case the code hands a zero kernel to the interior of the first entry even when
     that is a Union *)
  Definition lower_rform (f : rform) : option (list (dom * matrix)) :=
    let d_expr := rd_expr_of f in
    if existsb (fun kv => key_iface (fst kv)) d_expr then None else
    let (trials, tests) := get_trials_tests (rf_kind f) in
    match rd_new_of f with
    | None => None
    | Some [] =>
        match d_expr with
        | [] => Some []
        | (k, _) :: _ => match interior_of k with Some k' => Some [(k', mzero trials tests)] | None => None end
        end
    | Some d_new =>
        let d := distribute d_new in
        if forallb (fun km => atomic_key (fst km)) d then Some d else None      (* else: TypeError('not implemented for') *)
    end.

  (* a form object as the constructors build it, seen as such an object *)
  Definition embed (f : form) : rform := mkRForm (f_kind f) (map DReg (f_domain f)) (f_expr f).

  (* ------------------------------------------------------------ specification side *)
  (* the form as the list of (region, integrand) the user wrote: every integral(d, e) of the tree with the integrand
     it contributes, i.e. e under the operators between it and the root (distributivity is the specification) *)
  Fixpoint leaves (x : iexpr) : list (dom * texpr) :=
    match x with
    | IInt d e => [(d, e)]
    | IAdd a b => leaves a ++ leaves b
    | IZero => []
    | IWrap w a => map (fun de => (fst de, wapp w (snd de))) (leaves a)
    end.
  (* the integral(d, e) calls themselves, without the operators around them *)
  Fixpoint raw_leaves (x : iexpr) : list (dom * texpr) :=
    match x with
    | IInt d e => [(d, e)]
    | IAdd a b => raw_leaves a ++ raw_leaves b
    | IZero => []
    | IWrap _ a => raw_leaves a
    end.
  Definition spec_terms (x : iexpr) : list iterm :=
    flat_map (fun de => map (fun r => (r, snd de)) (members (fst de))) (leaves x).
  Definition on_region (r : region) (l : list iterm) : list texpr :=
    map snd (filter (fun x => region_eqb (fst x) r) l).
  Definition integrand_of (r : region) (x : iexpr) : texpr := tsum (on_region r (spec_terms x)).
  Definition regions_of (x : iexpr) : list region := rcanon (map fst (spec_terms x)).
End Lower.

(* sum of all entries of a kernel *)
Definition msum (m : matrix) : texpr := tsum (map tsum m).

(* the default reading of `== 0`: the literal 0 (what sympy's evaluation leaves when everything cancels) *)
Definition tis0 (e : texpr) : bool :=
  match e with TZ Z0 => true | TQ Z0 _ => true | _ => false end.

(* the reading used by the generated case files: additionally whatever the field normaliser proves to be 0 *)
Definition tzero (e : texpr) : bool := tis0 e || tequiv e (TZ 0).

(* a syntactic sufficient condition for additivity in a set of components:
   [hom1 cs e]: every monomial of e has exactly one factor that is an atom of cs;
   [free cs e]: no atom of cs occurs *)
Fixpoint free (cs : list comp) (e : texpr) : bool :=
  match e with
  | TZ _ | TQ _ _ => true
  | TAt a => negb (is_comp_atom cs a)
  | TAdd a b | TSub a b | TMul a b | TDiv a b | TPowG a b => free cs a && free cs b
  | TOpp a | TInv a | TPowN a _ | TFn _ a => free cs a
  end.
Fixpoint hom1 (cs : list comp) (e : texpr) : bool :=
  match e with
  | TZ Z0 => true
  | TZ _ | TQ _ _ => false
  | TAt a => is_comp_atom cs a
  | TAdd a b | TSub a b => hom1 cs a && hom1 cs b
  | TMul a b => (hom1 cs a && free cs b) || (free cs a && hom1 cs b)
  | TDiv a b => hom1 cs a && free cs b
  | TOpp a => hom1 cs a
  | TPowN a n => N.eqb n 1 && hom1 cs a
  | TInv _ | TFn _ _ | TPowG _ _ => false
  end.

(* atoms of an expression *)
Fixpoint tatoms (e : texpr) : list atom :=
  match e with
  | TZ _ | TQ _ _ => []
  | TAt a => [a]
  | TAdd a b | TSub a b | TMul a b | TDiv a b | TPowG a b => tatoms a ++ tatoms b
  | TOpp a | TInv a | TPowN a _ | TFn _ a => tatoms a
  end.
Definition comp_of (a : atom) : option comp := match a with AFld _ f c _ _ => Some (f, c) | _ => None end.

(* boolean comparisons used by the generated case files *)
Fixpoint list_beq {A} (f : A -> A -> bool) (l1 l2 : list A) : bool :=
  match l1, l2 with
  | [], [] => true
  | x :: r, y :: s => f x y && list_beq f r s
  | _, _ => false
  end.
