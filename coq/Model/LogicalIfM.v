(* Executable model of   TerminalExpr(LogicalExpr(e, I), I.logical_domain)   for an expression e over an INTERFACE I of a
   mapped multi-patch domain (sympde/topology/mapping.py LogicalExpr.eval with mapping = InterfaceMapping(minus, plus);
   sympde/expr/evaluation.py TerminalExpr.eval, Jacobian arms for an Interface domain).

   The code's arms on an interface:
     MinusInterfaceOperator(u) / PlusInterfaceOperator(u)   PullBack with mapping.minus / mapping.plus, the logical
                                                             unknown restricted to the same side
     grad / curl / div / dx / dy / dz of minus(..), plus(..) the rule of Model/LogicalM.v with the mapping OF THAT SIDE
     function-free coefficients                              coordinates -> components of mapping.minus
     Add / Mul / Pow / dot / inner / Function                recursion
     analytical mapping on the plus side                     its coordinates are renamed x1_plus, x2_plus, x3_plus and the
                                                             coordinate across the face is frozen to its value on the face
   The input is written as a tree [ix] whose leaves [ISide s a] are the sub-expressions whose functions are all
   restricted to the side s ([a : lx] with the restrictions erased, lowered by Model/LogicalM.v [logical d m_s s a]) and
   [IFree a] the function-free ones.  No proofs here. *)
From Coq Require Import String ZArith List Bool Arith.
From V Require Import Core.Terminal Core.Classical Gen.PullBack Model.LogicalM.
Import ListNotations. Open Scope string_scope.

Inductive ix :=
| ISide (s : side) (a : lx)
| IFree (a : lx)
| IAdd (l : list ix)
| IMul (l : list ix)
| IPow (b x : ix)
| IFn (f : fname) (a : ix)
| IDot (a b : ix) | IInner (a b : ix) | ICross (a b : ix).

(* substitution of terms for atoms *)
Fixpoint asubst (ren : atom -> texpr) (t : texpr) : texpr :=
  match t with
  | TZ _ | TQ _ _ => t
  | TAt a => ren a
  | TAdd a b => TAdd (asubst ren a) (asubst ren b)
  | TSub a b => TSub (asubst ren a) (asubst ren b)
  | TMul a b => TMul (asubst ren a) (asubst ren b)
  | TDiv a b => TDiv (asubst ren a) (asubst ren b)
  | TOpp a => TOpp (asubst ren a)
  | TInv a => TInv (asubst ren a)
  | TPowN a n => TPowN (asubst ren a) n
  | TFn f a => TFn f (asubst ren a)
  | TPowG b e => TPowG (asubst ren b) (asubst ren e)
  end.

Definition plus_name (i : nat) : string :=
  match i with 0 => "x1_plus" | 1 => "x2_plus" | _ => "x3_plus" end.

(* the logical coordinates of the plus patch in a kernel over the interface: the one across the face has its value on
   the face, the others are the symbols x1_plus, x2_plus, x3_plus *)
Definition ren_plus (ax : nat) (bound : texpr) (a : atom) : texpr :=
  match a with
  | ACoord true i => if Nat.eqb i ax then bound else TAt (AConst (plus_name i))
  | _ => TAt a
  end.

Section IfModel.
  Variable d : nat.
  Variables mm mp : string.          (* names of the mappings of the minus / the plus patch *)
  Variables exm exp : list texpr.    (* their coordinate expressions ([] = symbolic mapping) *)
  Variable ax : nat.                 (* the axis of the common face *)
  Variable bp : texpr.               (* value of the plus patch's coordinate x_ax on the face (0 or 1) *)

  Definition subst_side (m : string) (ex : list texpr) (t : tensor) : option tensor :=
    match ex with [] => Some t | _ => msubst_tens m ex t end.

  Definition plus_out (t : tensor) : tensor :=
    match exp with [] => t | _ => tmap (asubst (ren_plus ax bp)) t end.

  Definition side_model (s : side) (a : lx) : option tensor :=
    match s with
    | SMinus => match logical d mm SMinus a with Some t => subst_side mm exm t | None => None end
    | SPlus => match logical d mp SPlus a with Some t => option_map plus_out (subst_side mp exp t) | None => None end
    | SNone => None                   (* a function without restriction: PullBack with the InterfaceMapping itself *)
    end.

  Fixpoint logical_if (e : ix) {struct e} : option tensor :=
    match e with
    | ISide s a => side_model s a
    | IFree a => match logical d mm SMinus a with Some t => subst_side mm exm t | None => None end
    | IAdd l =>
        (fix go (l : list ix) : option tensor :=
           match l with
           | [] => None
           | [x] => logical_if x
           | x :: r => match logical_if x, go r with Some a, Some b => t_add a b | _, _ => None end
           end) l
    | IMul l =>
        (fix go (l : list ix) : option tensor :=
           match l with
           | [] => None
           | [x] => logical_if x
           | x :: r => match logical_if x, go r with Some a, Some b => t_mul a b | _, _ => None end
           end) l
    | IPow b x =>
        match logical_if b, logical_if x with
        | Some (Sc tb), Some (Sc tx) => Some (Sc (tpow tb tx))
        | _, _ => None
        end
    | IFn f a => match logical_if a with Some (Sc t) => Some (Sc (TFn f t)) | _ => None end
    | IDot a b =>
        match logical_if a, logical_if b with
        | Some (Vec u), Some (Vec v) => if Nat.eqb (length u) (length v) then Some (dot_v u v) else None
        | _, _ => None
        end
    | IInner a b =>
        if Nat.eqb d 1 then None else
        match logical_if a, logical_if b with
        | Some (Vec u), Some (Vec v) => if Nat.eqb (length u) (length v) then Some (dot_v u v) else None
        | Some (Mat A), Some (Mat B) => Some (inner_m A B)
        | _, _ => None
        end
    | ICross a b =>
        match logical_if a, logical_if b with
        | Some (Vec u), Some (Vec v) => cross_v d u v
        | _, _ => None
        end
    end.
End IfModel.

(* which atoms an expression of one side may contain: constants, the logical unknowns of that side, the components of
   that side's mapping and (minus side / analytical expressions) logical coordinates *)
Definition is_plus_name (n : string) : bool :=
  String.eqb n "x1_plus" || String.eqb n "x2_plus" || String.eqb n "x3_plus".

Definition side_atom (s : side) (m : string) (a : atom) : bool :=
  match a with
  | AConst n => negb (is_plus_name n)        (* x1_plus.. are not constants: they stand for the plus coordinates *)
  | ACoord lg _ => lg
  | AFld lg _ _ s' _ => lg && side_eqb s s'
  | AMap m' _ _ => String.eqb m m'
  | ANormal _ _ => false
  end.

Fixpoint all_atoms (ok : atom -> bool) (t : texpr) : bool :=
  match t with
  | TZ _ | TQ _ _ => true
  | TAt a => ok a
  | TAdd a b | TSub a b | TMul a b | TDiv a b | TPowG a b => all_atoms ok a && all_atoms ok b
  | TOpp a | TInv a | TPowN a _ | TFn _ a => all_atoms ok a
  end.

Definition tens_atoms (ok : atom -> bool) (t : tensor) : bool :=
  match t with
  | Sc x => all_atoms ok x
  | Vec l => forallb (all_atoms ok) l
  | Mat A => forallb (forallb (all_atoms ok)) A
  end.

(* the decidable side condition of Proofs/LogicalIfP.v [iok]: the output of every one-sided leaf is written with the
   atoms of its side only (evaluated for each generated case) *)
Section Pure.
  Variable d : nat.
  Variables mm mp : string.
  Variables exm exp : list texpr.

  Definition leaf_pure (s : side) (a : lx) : bool :=
    match s with
    | SMinus =>
        match logical d mm SMinus a with
        | Some t0 => match subst_side mm exm t0 with Some t1 => tens_atoms (side_atom SMinus mm) t1 | None => true end
        | None => true
        end
    | SPlus =>
        match logical d mp SPlus a with
        | Some t0 => match subst_side mp exp t0 with Some t1 => tens_atoms (side_atom SPlus mp) t1 | None => true end
        | None => true
        end
    | SNone => true
    end.

  Fixpoint ipure (e : ix) {struct e} : bool :=
    match e with
    | ISide s a => leaf_pure s a
    | IFree a => leaf_pure SMinus a
    | IAdd l | IMul l => (fix go (l : list ix) : bool := match l with [] => true | x :: r => ipure x && go r end) l
    | IPow b x => ipure b && ipure x
    | IFn _ a => ipure a
    | IDot a b | IInner a b | ICross a b => ipure a && ipure b
    end.
End Pure.

(* the public helpers called directly (sympde/topology/mapping.py Jacobian.eval, Covariant.eval, Contravariant.eval) on a
   square mapping named m of dimension d and a vector v of terminal expressions; a vector of another length is refused
   (Contravariant raises ShapeError; Covariant reads only the first d entries: recorded, not modelled) *)
Definition jacobian_call (d : nat) (m : string) : tensor := Mat (jac d m).
Definition covariant_call (d : nat) (m : string) (v : list texpr) : option tensor :=
  if Nat.eqb (length v) d then Some (Vec (mat_vec (transp (jinv d m)) v)) else None.
Definition contravariant_call (d : nat) (m : string) (v : list texpr) : option tensor :=
  if Nat.eqb (length v) d then Some (Vec (mat_vec (map (map (fun c => TDiv c (det_t d m))) (jac d m)) v)) else None.
