(* C08 - executable model of the linearity verdict of sympde.expr.expr
   (is_linear_expression, LinearForm / BilinearForm constructors) together with the
   polynomial machinery it needs (shared with C09):

     * sparse polynomials with rational coefficients over INDEXED variables; the
       variables are the opaque sub-terms ("keys") of a terminal expression: leaves,
       function applications, general powers and denominators;
     * [expand]: terminal expression -> merged list of monomials (what sympy's
       expand() computes on the integrand);
     * [crit]: the degree criterion = every monomial has total degree exactly one in the
       atoms of the argument group and no argument atom occurs inside an opaque key;
     * [model_is_linear]: is_linear_expression arm by arm (substitute l + r, expand,
       compare; substitute alpha * l, compare);
     * the verdicts of LinearForm / BilinearForm on a form = list of integrands;
     * [qviolates]: evaluation of a concrete rational valuation (refutation witness).

   Definitions only; the proofs are in Proofs/LinearityP.v. *)
From Coq Require Import String ZArith QArith Qcanon List Bool Arith PeanoNat.
From V Require Import Core.Terminal Core.SExpr.
Import ListNotations.
Local Open Scope nat_scope.

(* ================================================================= polynomials *)
Definition mono := list nat.              (* exponent vector; position = index of the key *)
Definition poly := list (Q * mono).

Fixpoint mono_eqb (a b : mono) : bool :=
  match a, b with
  | [], [] => true
  | x :: a', y :: b' => Nat.eqb x y && mono_eqb a' b'
  | _, _ => false
  end.

Fixpoint mmul (a b : mono) : mono :=
  match a, b with
  | [], _ => b
  | _, [] => a
  | x :: a', y :: b' => (x + y) :: mmul a' b'
  end.

Definition mzero (n : nat) : mono := repeat 0 n.

Fixpoint munit (n i : nat) : mono :=
  match n with
  | 0 => []
  | S n' => match i with 0 => 1 :: mzero n' | S i' => 0 :: munit n' i' end
  end.

Fixpoint coefsum (m : mono) (p : poly) : Q :=
  match p with
  | [] => 0%Q
  | (c, m') :: r => if mono_eqb m m' then (c + coefsum m r)%Q else coefsum m r
  end.

(* insertion of one monomial into a merged list *)
Fixpoint pins (c : Q) (m : mono) (p : poly) : poly :=
  match p with
  | [] => if Qeq_bool c 0%Q then [] else [(c, m)]
  | (c', m') :: r =>
      if mono_eqb m m'
      then (let s := Qred (c + c')%Q in if Qeq_bool s 0%Q then r else (s, m') :: r)
      else (c', m') :: pins c m r
  end.

Definition pnorm (p : poly) : poly := fold_right (fun cm acc => pins (fst cm) (snd cm) acc) [] p.

Definition pneg (p : poly) : poly := map (fun cm => ((- fst cm)%Q, snd cm)) p.
Definition padd (a b : poly) : poly := pnorm (a ++ b).
Definition psub (a b : poly) : poly := pnorm (a ++ pneg b).
Definition pscale (c : Q) (m : mono) (p : poly) : poly :=
  map (fun cm => (Qred (c * fst cm)%Q, mmul m (snd cm))) p.
Definition pmul (a b : poly) : poly := pnorm (flat_map (fun cm => pscale (fst cm) (snd cm) b) a).
Definition pconst (n : nat) (c : Q) : poly := pnorm [(c, mzero n)].
Definition pvar (n i : nat) : poly := [(1%Q, munit n i)].

Fixpoint ppow_nat (n : nat) (p : poly) (k : nat) : poly :=
  match k with 0 => pconst n 1%Q | S k' => pmul p (ppow_nat n p k') end.

(* "== 0" after merging like terms *)
Definition pzero (p : poly) : bool := forallb (fun cm => Qeq_bool (coefsum (snd cm) p) 0%Q) p.

(* ================================================================= keys *)
(* the opaque sub-terms of a terminal expression (a denominator is one key) *)
Fixpoint keys (t : texpr) : list texpr :=
  match t with
  | TZ _ | TQ _ _ => []
  | TAt _ | TFn _ _ | TPowG _ _ | TInv _ => [t]
  | TAdd a b | TSub a b | TMul a b => keys a ++ keys b
  | TDiv a b => keys a ++ [TInv b]
  | TOpp a | TPowN a _ => keys a
  end.

Fixpoint dedup (l : list texpr) : list texpr :=
  match l with
  | [] => []
  | x :: r => let r' := dedup r in if existsb (texpr_eqb x) r' then r' else x :: r'
  end.

Definition table (t : texpr) : list texpr := dedup (keys t).

Fixpoint expand (tb : list texpr) (t : texpr) : poly :=
  let n := length tb in
  match t with
  | TZ z => pconst n (inject_Z z)
  | TQ p q => pconst n (Qred (p # q))
  | TAt _ | TFn _ _ | TPowG _ _ | TInv _ => pvar n (index_of t tb)
  | TAdd a b => padd (expand tb a) (expand tb b)
  | TSub a b => psub (expand tb a) (expand tb b)
  | TMul a b => pmul (expand tb a) (expand tb b)
  | TDiv a b => pmul (expand tb a) (pvar n (index_of (TInv b) tb))
  | TOpp a => pnorm (pneg (expand tb a))
  | TPowN a k => ppow_nat n (expand tb a) (N.to_nat k)
  end.

(* the expanded integrand with its table of keys *)
Record xpoly := { xtb : list texpr; xp : poly }.
Definition xexpand (t : texpr) : xpoly := {| xtb := table t; xp := expand (table t) t |}.

(* ================================================================= argument groups *)
Definition argb (args : list string) (f : string) : bool := existsb (String.eqb f) args.

Definition is_arg_atom (args : list string) (t : texpr) : bool :=
  match t with TAt (AFld _ f _ _ _) => argb args f | _ => false end.

Fixpoint mentions (args : list string) (t : texpr) : bool :=
  match t with
  | TZ _ | TQ _ _ => false
  | TAt _ => is_arg_atom args t
  | TAdd a b | TSub a b | TMul a b | TDiv a b | TPowG a b => mentions args a || mentions args b
  | TOpp a | TInv a | TPowN a _ | TFn _ a => mentions args a
  end.

Inductive kind := KArg | KDirty | KClean.

Definition kind_of (args : list string) (t : texpr) : kind :=
  if is_arg_atom args t then KArg else if mentions args t then KDirty else KClean.

Definition cls (args : list string) (tb : list texpr) : list kind := map (kind_of args) tb.

Definition kind_eqb (a b : kind) : bool :=
  match a, b with KArg, KArg | KDirty, KDirty | KClean, KClean => true | _, _ => false end.

(* the part of an exponent vector carried by the keys of one kind (same length) *)
Fixpoint mask (k : kind) (cl : list kind) (m : mono) : mono :=
  match cl, m with
  | k' :: cl', e :: m' => (if kind_eqb k k' then e else 0) :: mask k cl' m'
  | _, _ => []
  end.

Definition msum (m : mono) : nat := fold_right Nat.add 0 m.
Definition argdeg (cl : list kind) (m : mono) : nat := msum (mask KArg cl m).
Definition dirtydeg (cl : list kind) (m : mono) : nat := msum (mask KDirty cl m).

(* ---------------------------------------------------------------- the criterion *)
Definition crit_mono (cl : list kind) (m : mono) : bool :=
  Nat.eqb (argdeg cl m) 1 && Nat.eqb (dirtydeg cl m) 0.
Definition crit_poly (cl : list kind) (p : poly) : bool := forallb (fun cm => crit_mono cl (snd cm)) p.
Definition crit (args : list string) (x : xpoly) : bool := crit_poly (cls args (xtb x)) (xp x).

(* ================================================================= is_linear_expression *)
(* Variables after the substitutions, for a table of n keys (5n+1 positions):
     block 0  clean keys (unchanged)
     block 1  l-copies : argument atoms a[l], and dirty keys k[l]
     block 2  r-copies : a[r], k[r]
     block 3  dirty keys k[l + r]
     block 4  dirty keys k[alpha * l]
     last     the fresh constant alpha.                                              *)
Fixpoint binom (n k : nat) : nat :=
  match n, k with
  | _, 0 => 1
  | 0, S _ => 0
  | S n', S k' => binom n' k' + binom n' k
  end.

Definition qnat (n : nat) : Q := inject_Z (Z.of_nat n).

(* (l + r)^e for every argument position: coefficient, l-exponents, r-exponents *)
Fixpoint binsplit (cl : list kind) (m : mono) : list (Q * (mono * mono)) :=
  match cl, m with
  | k :: cl', e :: m' =>
      let rest := binsplit cl' m' in
      match k with
      | KArg => flat_map (fun j => map (fun x => ((qnat (binom e j) * fst x)%Q, (j :: fst (snd x), (e - j) :: snd (snd x)))) rest)
                         (seq 0 (S e))
      | _ => map (fun x => (fst x, (0 :: fst (snd x), 0 :: snd (snd x)))) rest
      end
  | _, _ => [(1%Q, ([], []))]
  end.

Definition blocks (b0 b1 b2 b3 b4 : mono) (a : nat) : mono := b0 ++ b1 ++ b2 ++ b3 ++ b4 ++ [a].

Section Subst.
  Variable cl : list kind.
  Let n := length cl.
  Let Z0 := mzero n.

  (* expr.subs(arg -> left) / (arg -> right) *)
  Definition ren_l (cm : Q * mono) : Q * mono :=
    let m := snd cm in (fst cm, blocks (mask KClean cl m) (mmul (mask KArg cl m) (mask KDirty cl m)) Z0 Z0 Z0 0).
  Definition ren_r (cm : Q * mono) : Q * mono :=
    let m := snd cm in (fst cm, blocks (mask KClean cl m) Z0 (mmul (mask KArg cl m) (mask KDirty cl m)) Z0 Z0 0).
  (* expr.subs(arg -> left + right), expanded *)
  Definition subst_lr (cm : Q * mono) : poly :=
    let m := snd cm in
    map (fun x => ((fst cm * fst x)%Q, blocks (mask KClean cl m) (fst (snd x)) (snd (snd x)) (mask KDirty cl m) Z0 0))
        (binsplit cl m).
  (* expr.subs(arg -> alpha * left) *)
  Definition subst_al (cm : Q * mono) : Q * mono :=
    let m := snd cm in (fst cm, blocks (mask KClean cl m) (mask KArg cl m) Z0 Z0 (mask KDirty cl m) (argdeg cl m)).
  (* alpha * expr.subs(arg -> left) *)
  Definition al_times_l (cm : Q * mono) : Q * mono :=
    let m := snd cm in (fst cm, blocks (mask KClean cl m) (mmul (mask KArg cl m) (mask KDirty cl m)) Z0 Z0 Z0 1).

  (* (a - b).expand() == 0 or a.expand() == b.expand(): both are the same test on merged monomial lists *)
  Definition same_expanded (a b : poly) : bool := pzero (a ++ pneg b) || pzero (pnorm a ++ pneg (pnorm b)).

  Definition additive_test (p : poly) : bool :=
    same_expanded (flat_map subst_lr p) (map ren_l p ++ map ren_r p).
  Definition homogeneous_test (p : poly) : bool :=
    same_expanded (map subst_al p) (map al_times_l p).

  (* is_linear_expression: the addition test first, then the multiplication test *)
  Definition model_is_linear_poly (p : poly) : bool :=
    if negb (additive_test p) then false else
    if negb (homogeneous_test p) then false else true.
End Subst.

Definition model_is_linear (args : list string) (x : xpoly) : bool :=
  model_is_linear_poly (cls args (xtb x)) (xp x).

(* ================================================================= forms *)
(* A form = the integrands of its integrals (one per region, merged by IntAdd). *)
Inductive verdict := Accepted | RefusedLinearity.

Definition verdict_eqb (a b : verdict) : bool :=
  match a, b with Accepted, Accepted | RefusedLinearity, RefusedLinearity => true | _, _ => false end.

Definition all_linear (args : list string) (form : list texpr) : bool :=
  forallb (fun e => model_is_linear args (xexpand e)) form.

(* LinearForm(tests, expr): one call, all test functions form one group *)
Definition linear_form (tests : list string) (form : list texpr) : verdict :=
  if negb (all_linear tests form) then RefusedLinearity else Accepted.

(* BilinearForm((trials, tests), expr): trial group first, then test group *)
Definition bilinear_form (trials tests : list string) (form : list texpr) : verdict :=
  if negb (all_linear trials form) then RefusedLinearity else
  if negb (all_linear tests form) then RefusedLinearity else Accepted.

(* the same with the degree criterion (the specification) *)
Definition all_crit (args : list string) (form : list texpr) : bool :=
  forallb (fun e => crit args (xexpand e)) form.
Definition spec_linear_form (tests : list string) (form : list texpr) : verdict :=
  if all_crit tests form then Accepted else RefusedLinearity.
Definition spec_bilinear_form (trials tests : list string) (form : list texpr) : verdict :=
  if all_crit trials form && all_crit tests form then Accepted else RefusedLinearity.

(* ================================================================= valuations *)
(* Evaluation of a terminal expression in any field, with the atoms read from a valuation
   (no differential structure is needed to talk about linearity). *)
Section VEval.
  Variable F : Type.
  Variables (f0 f1 : F) (fadd fmul fsub : F -> F -> F) (fopp : F -> F) (fdiv : F -> F -> F) (finv : F -> F).
  Variable phiZ : Z -> F.
  Variable E : fname -> F -> F.
  Variable P : F -> F -> F.
  Variable rho : atom -> F.

  Fixpoint vpow (x : F) (k : nat) : F := match k with 0 => f1 | S k' => fmul x (vpow x k') end.

  Fixpoint vev (t : texpr) : F :=
    match t with
    | TZ z => phiZ z
    | TQ p q => fdiv (phiZ p) (phiZ (Zpos q))
    | TAt a => rho a
    | TAdd a b => fadd (vev a) (vev b)
    | TSub a b => fsub (vev a) (vev b)
    | TMul a b => fmul (vev a) (vev b)
    | TDiv a b => fdiv (vev a) (vev b)
    | TOpp a => fopp (vev a)
    | TInv a => finv (vev a)
    | TPowN a k => vpow (vev a) (N.to_nat k)
    | TFn f a => E f (vev a)
    | TPowG b e => P (vev b) (vev e)
    end.
End VEval.

(* ------------------------------------------------- a concrete structure: the rationals *)
Fixpoint strcode (s : string) : nat :=
  match s with EmptyString => 0 | String a r => Ascii.nat_of_ascii a + strcode r end.
Definition fcode (f : fname) : Qc :=
  Q2Qc (inject_Z (Z.of_nat (match f with Fsin => 1 | Fcos => 2 | Ftan => 3 | Fexp => 4 | Flog => 5 | Fsqrt => 6 | Fabs => 7
                            | Fother s => 8 + strcode s end))).
(* any interpretation of the function symbols gives a structure; these are not additive *)
Definition qE (f : fname) (x : Qc) : Qc := (x * x + fcode f)%Qc.
Definition qP (b e : Qc) : Qc := (b * b * e + b + e * e + Q2Qc 1%Q)%Qc.
Definition qphi (z : Z) : Qc := Q2Qc (inject_Z z).

Definition qev (rho : atom -> Qc) (t : texpr) : Qc :=
  vev Qc (Q2Qc 1%Q) Qcplus Qcmult Qcminus Qcopp Qcdiv Qcinv qphi qE qP rho t.

Fixpoint lookup (l : list (atom * Q)) (a : atom) : Qc :=
  match l with
  | [] => Q2Qc 0%Q
  | (b, v) :: r => if atom_eqb a b then Q2Qc v else lookup r a
  end.

Definition atom_is_arg (args : list string) (a : atom) : bool :=
  match a with AFld _ f _ _ _ => argb args f | _ => false end.

(* base: values of all atoms; v1, v2: values of the argument atoms; c: the scalar.
   true = additivity or homogeneity FAILS at this valuation. *)
Definition qviolates (args : list string) (e : texpr) (base v1 v2 : list (atom * Q)) (c : Q) : bool :=
  let r1 := fun a => if atom_is_arg args a then lookup v1 a else lookup base a in
  let r2 := fun a => if atom_is_arg args a then lookup v2 a else lookup base a in
  let r12 := fun a => if atom_is_arg args a then (lookup v1 a + lookup v2 a)%Qc else lookup base a in
  let rc := fun a => if atom_is_arg args a then (Q2Qc c * lookup v1 a)%Qc else lookup base a in
  negb (Qc_eq_bool (qev r12 e) (qev r1 e + qev r2 e)%Qc) ||
  negb (Qc_eq_bool (qev rc e) (Q2Qc c * qev r1 e)%Qc).
