(* Executable model of sympde.topology.basic.Union (C14).
   No proofs here: the model still runs when a proof breaks. *)
From Coq Require Import String List Bool Arith PeanoNat.
From V Require Import Core.Canon.
Import ListNotations.

(* A member as the constructor sees it: [a_id] names its ==/hash class (the harness
   assigns ids from the real objects' ==), [a_str] is str(a), [a_dim] is a.dim. *)
Record atom := mkAtom { a_id : nat; a_str : string; a_dim : nat }.
Definition aeqb (a b : atom) : bool := Nat.eqb (a_id a) (a_id b).

Inductive value :=
| VNone                       (* Python None: the empty union *)
| VAtom (a : atom)            (* a single domain / boundary / interface *)
| VUnion (l : list atom)      (* a Union object: its args, in order *)
| VBad.                       (* any object that is not a BasicDomain *)

Inductive err := TypeErr | ValueErr.
Inductive result := Ok (v : value) | Err (e : err).

Definition is_none v := match v with VNone => true | _ => false end.
Definition is_bad v := match v with VBad => true | _ => false end.
Definition is_union v := match v with VUnion _ => true | _ => false end.
Definition members v := match v with VAtom a => [a] | VUnion l => l | _ => [] end.
(* a.dim : for a Union, the dimension of its first argument *)
Definition vdim v := match v with VAtom a => a_dim a | VUnion (a :: _) => a_dim a | _ => 0 end.

Fixpoint nodup_nat (l : list nat) : list nat :=
  match l with [] => [] | n :: r => if existsb (Nat.eqb n) r then nodup_nat r else n :: nodup_nat r end.

Definition pack (s : list atom) : value :=
  match s with [] => VNone | [a] => VAtom a | _ => VUnion s end.

(* Union.__new__, statement by statement *)
Definition flatten_args (args : list value) : list atom :=
  flat_map members (filter (fun v => negb (is_union v)) args)
  ++ flat_map members (filter is_union args).

Definition union_new (args0 : list value) : result :=
  let args := filter (fun v => negb (is_none v)) args0 in
  if existsb is_bad args then Err TypeErr else
  if Nat.ltb 1 (length (nodup_nat (map vdim args))) then Err ValueErr else
  Ok (pack (canon aeqb a_str (flatten_args args))).

(* Nested constructor calls, as the user writes them *)
Inductive utree := Leaf (v : value) | Node (l : list utree).

Fixpoint ueval (t : utree) : result :=
  match t with
  | Leaf v => Ok v
  | Node l =>
      (fix go (l : list utree) (acc : list value) : result :=
         match l with
         | [] => union_new (rev acc)
         | t :: r => match ueval t with Err e => Err e | Ok v => go r (v :: acc) end
         end) l []
  end.

(* Union.complement(arg) *)
Definition complement (u : list atom) (arg : value) : result :=
  match arg with
  | VNone => Ok (VUnion u)
  | VBad => Err TypeErr    (* the code builds a TypeError without raising it; the membership test
                             `i not in arg` on a non-iterable then raises TypeError *)
  | _ => union_new (map VAtom (filter (fun i => negb (mem aeqb i (members arg))) u))
  end.

(* Iteration.  Each iter() call hands out an independent cursor over the args. *)
Inductive iop := IIter | INext (k : nat).          (* next() on the k-th iterator created *)
Inductive iout := OIter | OYield (a : atom) | OStop | ONoIter.

Fixpoint set_nth (k : nat) (v : nat) (l : list nat) : list nat :=
  match l, k with
  | [], _ => []
  | _ :: r, 0 => v :: r
  | x :: r, S k' => x :: set_nth k' v r
  end.

Definition istep (u : list atom) (st : list nat) (o : iop) : list nat * iout :=
  match o with
  | IIter => (st ++ [0], OIter)
  | INext k =>
      match nth_error st k with
      | None => (st, ONoIter)
      | Some pos =>
          match nth_error u pos with
          | Some a => (set_nth k (S pos) st, OYield a)
          | None => (st, OStop)
          end
      end
  end.

Fixpoint irun (u : list atom) (st : list nat) (ops : list iop) : list iout :=
  match ops with
  | [] => []
  | o :: r => let (st', out) := istep u st o in out :: irun u st' r
  end.

(* The design that shares one cursor between all iterations (the pre-fix code):
   iter() resets the single index, next() advances it. *)
Definition istep_shared (u : list atom) (idx : nat) (o : iop) : nat * iout :=
  match o with
  | IIter => (0, OIter)
  | INext _ => match nth_error u idx with
               | Some a => (S idx, OYield a)
               | None => (idx, OStop)
               end
  end.
Fixpoint irun_shared (u : list atom) (idx : nat) (ops : list iop) : list iout :=
  match ops with
  | [] => []
  | o :: r => let (i', out) := istep_shared u idx o in out :: irun_shared u i' r
  end.

(* outputs of iterator k within an interleaved run *)
Fixpoint yields_of (k : nat) (ops : list iop) (outs : list iout) : list atom :=
  match ops, outs with
  | INext j :: r, OYield a :: s => if Nat.eqb j k then a :: yields_of k r s else yields_of k r s
  | _ :: r, _ :: s => yields_of k r s
  | _, _ => []
  end.

(* boolean equalities, used by the generated case files to decide agreement
   between the model and the implementation inside Coq *)
Definition atom_beq (a b : atom) : bool :=
  Nat.eqb (a_id a) (a_id b) && String.eqb (a_str a) (a_str b) && Nat.eqb (a_dim a) (a_dim b).
Fixpoint list_beq {A} (f : A -> A -> bool) (l1 l2 : list A) : bool :=
  match l1, l2 with
  | [], [] => true
  | x :: r, y :: s => f x y && list_beq f r s
  | _, _ => false
  end.
Definition value_beq (v w : value) : bool :=
  match v, w with
  | VNone, VNone => true
  | VAtom a, VAtom b => atom_beq a b
  | VUnion l, VUnion m => list_beq atom_beq l m
  | VBad, VBad => true
  | _, _ => false
  end.
Definition result_beq (r s : result) : bool :=
  match r, s with
  | Ok v, Ok w => value_beq v w
  | Err TypeErr, Err TypeErr => true
  | Err ValueErr, Err ValueErr => true
  | _, _ => false
  end.
(* equality up to the order of members that print the same (when str is not injective the
   order inside a group of equal keys follows the set iteration order, which is not modelled) *)
Definition value_seteq (v w : value) : bool :=
  match v, w with
  | VUnion l, VUnion m =>
      Nat.eqb (length l) (length m) &&
      forallb (fun a => existsb (atom_beq a) m) l && forallb (fun a => existsb (atom_beq a) l) m &&
      list_beq String.eqb (map a_str l) (map a_str m)
  | _, _ => value_beq v w
  end.
Definition result_seteq (r s : result) : bool :=
  match r, s with
  | Ok v, Ok w => value_seteq v w
  | _, _ => result_beq r s
  end.
Definition iout_beq (x y : iout) : bool :=
  match x, y with
  | OIter, OIter => true
  | OYield a, OYield b => atom_beq a b
  | OStop, OStop => true
  | ONoIter, ONoIter => true
  | _, _ => false
  end.
