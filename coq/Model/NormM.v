(* Follows the library as repaired by 8b3531a (the Hessian term of H2 uses Inner), d70b390 (Dot_1d / Inner_1d
   accept the scalars returned by Grad_1d / Hessian_1d; Inner_1d exists) and 1e0454e (Dot_2d / Dot_3d: matrix . vector
   and vector . matrix arms).  The model of the library before these repairs is wip/C11/NormM.v; what it did is
   kept as short historical lemmas in Proofs/NormP.v.

   Executable model of the integrand assembled by sympde.expr.expr.Norm / SemiNorm and
   lowered by TerminalExpr (C11), arm for arm:

     Norm.__new__ / SemiNorm.__new__   kind x is_vector case split, the shape test, the terms
                                       e*e, Dot(v,v), Dot(Grad e,Grad e), Inner(Grad v,Grad v),
                                       Inner(Hessian e,Hessian e)
     TerminalExpr.eval                 '{Op}_{dim}d' dispatch
     Grad_kd / Hessian_kd tables       (sympde/topology/derivatives.py, physical and Logical twins)
     Dot_kd / Inner_kd tables          (sympde/core/algebra.py): Dot reads its arguments with FLAT
                                       indices u[0],u[1],u[2]; Inner is trace(u^T v)
     DifferentialOperator.eval         entry-wise on Tuple (-> 1 x n Matrix) and Matrix; scalars by
                                       the C05 model [dop]; __getitem__ of a bare derivative object
                                       returns the object itself

   The calculus-level constructors Grad/Hessian/Dot/Inner (bilinear expansion at construction, C02)
   are the identity here.  No proofs in this file.  The second half is the REFERENCE (the classical
   Sobolev integrand written with Core/Classical.v), used by the case files and by Proofs/NormP.v. *)
From Coq Require Import String ZArith List Bool Arith.
From V Require Import Core.Terminal Core.SExpr Core.Classical Model.DOpM.
From V Require Import Model.IntegralsM.
Import ListNotations.

Inductive nkind := L2 | H1 | H2.

(* how a call ends when it does not return a value (compared with the implementation as an enum) *)
Inductive ecode :=
| ETypeError        (* a scalar expression is indexed: 'Add' object is not subscriptable *)
| EIndexError       (* flat index out of range *)
| ENameError        (* Inner_1d is not defined *)
| ENotImplemented   (* NotImplementedError('TODO') / an operator refuses *)
| EValueError.      (* 'Wrong expression for Matrix. must be a row' *)

Inductive res (A : Type) := Ok (a : A) | Er (c : ecode).
Arguments Ok {A} a. Arguments Er {A} c.

Definition bind {A B} (x : res A) (f : A -> res B) : res B :=
  match x with Ok a => f a | Er c => Er c end.
Notation "'do' x <- a ; b" := (bind a (fun x => b)) (at level 200, x name, a at level 100, b at level 200).

Definition of_opt {A} (c : ecode) (x : option A) : res A :=
  match x with Some a => Ok a | None => Er c end.

Fixpoint mapR {A B} (f : A -> res B) (l : list A) : res (list B) :=
  match l with
  | [] => Ok []
  | x :: r => do y <- f x; do ys <- mapR f r; Ok (y :: ys)
  end.

(* what TerminalExpr hands to the tables: a scalar, a Tuple, a Matrix (row major) *)
Inductive val := VS (e : sx) | VT (l : list sx) | VM (rows : list (list sx)).

(* -------------------------------------------------- DifferentialOperator.eval on containers *)
Definition dsc (lg : bool) (i : nat) (e : sx) : res sx := of_opt ENotImplemented (dop lg i e).

Definition dval (lg : bool) (i : nat) (v : val) : res val :=
  match v with
  | VS e => do a <- dsc lg i e; Ok (VS a)
  | VT l => do r <- mapR (dsc lg i) l; Ok (VM [r])                  (* Matrix([args]) : 1 x n *)
  | VM rows => do r <- mapR (mapR (dsc lg i)) rows; Ok (VM r)
  end.

(* a bare derivative object d..(atom): DifferentialOperator.__getitem__ returns self *)
Definition is_dobj (e : sx) : bool :=
  match e with
  | SAt (AFld _ _ _ _ al) => negb (all_zero al)
  | SAt (AMap _ _ al) => negb (all_zero al)
  | _ => false
  end.

(* u[k] *)
Definition vidx (v : val) (k : nat) : res sx :=
  match v with
  | VS e => if is_dobj e then Ok e else Er ETypeError
  | VT l => of_opt EIndexError (nth_error l k)
  | VM rows => of_opt EIndexError (nth_error (concat rows) k)
  end.

(* ------------------------------------------------------------------ Grad_kd / LogicalGrad_kd *)
(* lines = [list(d[:]) for d in du]  if du[0] is a Tuple / Matrix,  else [[d] for d in du] *)
Definition glines (du : list val) : res val :=
  match du with
  | VS _ :: _ => do r <- mapR (fun x => match x with VS e => Ok [e] | _ => Er ETypeError end) du; Ok (VM r)
  | _ => do r <- mapR (fun x => match x with
                                | VS _ => Er ETypeError
                                | VT l => Ok l
                                | VM rows => Ok (concat rows)
                                end) du; Ok (VM r)
  end.

Definition grad_kd (lg : bool) (d : nat) (v : val) : res val :=
  match d with
  | 1 => dval lg 0 v                                                  (* Grad_1d: dx(u) *)
  | 2 => do a <- dval lg 0 v; do b <- dval lg 1 v; glines [a; b]
  | 3 => do a <- dval lg 0 v; do b <- dval lg 1 v; do c <- dval lg 2 v; glines [a; b; c]
  | _ => Er ENameError
  end.

(* ------------------------------------------------------------ Hessian_kd / LogicalHessian_kd *)
(* d_i(d_j(u)) as the tables write it: the inner operator is applied first *)
Definition d2 (lg : bool) (i j : nat) (e : sx) : res sx :=
  do a <- dsc lg j e; dsc lg i a.

Definition hessian_kd (lg : bool) (d : nat) (v : val) : res val :=
  match v with
  | VS e =>
      match d with
      | 1 => do a <- d2 lg 0 0 e; Ok (VS a)
      | 2 => do xx <- d2 lg 0 0 e; do xy <- d2 lg 0 1 e; do yy <- d2 lg 1 1 e;
             Ok (VM [[xx; xy]; [xy; yy]])
      | 3 => do xx <- d2 lg 0 0 e; do xy <- d2 lg 0 1 e; do xz <- d2 lg 0 2 e;
             do yy <- d2 lg 1 1 e; do yz <- d2 lg 1 2 e; do zz <- d2 lg 2 2 e;
             Ok (VM [[xx; xy; xz]; [xy; yy; yz]; [xz; yz; zz]])
      | _ => Er ENameError
      end
  | _ => Er ENotImplemented      (* not reached from Norm: the vector H2 case is refused before *)
  end.

(* ----------------------------------------------------------------------------- Dot_kd *)
Definition prod2 (a b : sx) : sx := SMul [a; b].

Definition ncols (A : list (list sx)) : nat := match A with [] => 0 | r :: _ => length r end.

(* _is_matrix: a Matrix with more than one column (the (n,1) column that stands for a vector is not one) *)
Definition is_mat (v : val) : bool :=
  match v with VM rows => Nat.ltb 1 (ncols rows) | _ => false end.

(* _first_component: u[0] of a Tuple / list / Matrix, the expression itself otherwise *)
Definition first_comp (v : val) : res sx :=
  match v with
  | VS e => Ok e
  | VT l => of_opt EIndexError (nth_error l 0)
  | VM rows => of_opt EIndexError (nth_error (concat rows) 0)
  end.

Definition dot_kd (d : nat) (u v : val) : res sx :=
  match d with
  | 1 => do a <- first_comp u; do b <- first_comp v; Ok (prod2 a b)
  | 2 =>
      (* matrix . vector and vector . matrix arms: they return a column Matrix, not a scalar; not reached from Norm,
         whose Dot arguments are a Tuple or a column *)
      if xorb (is_mat u) (is_mat v) then Er ENotImplemented else
      do a0 <- vidx u 0; do b0 <- vidx v 0; do a1 <- vidx u 1; do b1 <- vidx v 1;
      Ok (SAdd [prod2 a0 b0; prod2 a1 b1])
  | 3 =>
      if xorb (is_mat u) (is_mat v) then Er ENotImplemented else
      do a0 <- vidx u 0; do b0 <- vidx v 0; do a1 <- vidx u 1; do b1 <- vidx v 1;
      do a2 <- vidx u 2; do b2 <- vidx v 2;
      Ok (SAdd [prod2 a0 b0; prod2 a1 b1; prod2 a2 b2])
  | _ => Er ENameError
  end.

(* --------------------------------------------------------------------------- Inner_kd *)
(* Matrix(u) *)
Definition to_matrix (v : val) : res (list (list sx)) :=
  match v with
  | VS _ => Er ETypeError
  | VT l => Ok (map (fun x => [x]) l)
  | VM rows => Ok rows
  end.

Definition same_shape (A B : list (list sx)) : bool :=
  Nat.eqb (length A) (length B) && Nat.eqb (ncols A) (ncols B)
  && forallb (fun r => Nat.eqb (length r) (ncols A)) A && forallb (fun r => Nat.eqb (length r) (ncols B)) B.

Definition entry (A : list (list sx)) (i j : nat) : sx := nth j (nth i A []) (sZ 0).

(* trace(u^T v) = sum_j sum_i u[i][j] v[i][j] *)
Definition trace_tAB (A B : list (list sx)) : sx :=
  SAdd (map (fun j => SAdd (map (fun i => prod2 (entry A i j) (entry B i j)) (seq0 (length A)))) (seq0 (ncols A))).

Definition inner_kd (d : nat) (u v : val) : res sx :=
  match d with
  | 2 | 3 =>
      do A <- to_matrix u; do B <- to_matrix v;
      if same_shape A B then Ok (trace_tAB A B) else Er EValueError
  | 1 => do a <- first_comp u; do b <- first_comp v; Ok (prod2 a b)          (* Inner_1d *)
  | _ => Er ENameError
  end.

(* ------------------------------------------------------------------- Norm / SemiNorm *)
(* the argument after  is_vector -> ImmutableDenseMatrix(expr) *)
Inductive ninput := NS (e : sx) | NV (rows : list (list sx)).

(* if expr.shape[1] != 1: raise ValueError ; v = Tuple( *expr[:,0]) *)
Definition col0 (rows : list (list sx)) : res (list sx) :=
  mapR (fun r => match r with [x] => Ok x | _ => Er EValueError end) rows.

Definition sq (e : sx) : sx := prod2 e e.

(* Dot(Grad e, Grad e) and Inner(Hessian e, Hessian e) of a scalar e, lowered *)
Definition dgrad (lg : bool) (d : nat) (e : sx) : res sx :=
  do a <- grad_kd lg d (VS e); dot_kd d a a.

Definition dhess (lg : bool) (d : nat) (e : sx) : res sx :=
  do a <- hessian_kd lg d (VS e); inner_kd d a a.

(* [semi] = true: SemiNorm.__new__, false: Norm.__new__ ; [lg] = true on a domain without mapping
   (Logical*_kd tables, dx1..dx3), false on a mapped domain (dx..dz) *)
Definition norm_integrand (semi : bool) (k : nkind) (lg : bool) (d : nat) (inp : ninput) : res sx :=
  match k, inp with
  | L2, NS e => Ok (sq e)
  | L2, NV rows => do v <- col0 rows; dot_kd d (VT v) (VT v)
  | H1, NS e =>
      do g <- dgrad lg d e;
      Ok (if semi then g else SAdd [g; sq e])
  | H1, NV rows =>
      do v <- col0 rows;
      do a <- grad_kd lg d (VT v);
      do g <- inner_kd d a a;
      if semi then Ok g else do m <- dot_kd d (VT v) (VT v); Ok (SAdd [g; m])
  | H2, NS e =>
      if semi then dhess lg d e else
      do h <- dhess lg d e;
      do g <- dgrad lg d e;
      Ok (SAdd [h; g; sq e])
  | H2, NV _ => Er ENotImplemented
  end.

(* ======================================================================================
   REFERENCE: the classical Sobolev integrand, written with the classical operators of
   Core/Classical.v (reference derivative tD):
     |e|^2 = sum_c e_c^2 ,  |grad e|^2 = sum_i sum_c (d_i e_c)^2 ,  |hess e|^2 = sum_ij (d_i d_j e)^2 *)
Definition tsq (t : texpr) : texpr := TMul t t.

Definition ref_l2 (cs : list texpr) : texpr := Classical.tsum (map tsq cs).

Definition ref_h1 (lg : bool) (d : nat) (scalar : bool) (cs : list texpr) : option texpr :=
  if scalar then
    match cs with
    | [e] => match grad_s lg d e with Some (Vec g) => Some (Classical.tsum (map tsq g)) | _ => None end
    | _ => None
    end
  else
    match grad_v lg d cs with Some (Mat A) => Some (Classical.tsum (map tsq (concat A))) | _ => None end.

Definition ref_h2 (lg : bool) (d : nat) (cs : list texpr) : option texpr :=
  match cs with
  | [e] => match hessian_s lg d e with Some (Mat A) => Some (Classical.tsum (map tsq (concat A))) | _ => None end
  | _ => None
  end.

Definition sobolev_ref (semi : bool) (k : nkind) (lg : bool) (d : nat) (scalar : bool) (cs : list texpr) : option texpr :=
  match k with
  | L2 => Some (ref_l2 cs)
  | H1 => match ref_h1 lg d scalar cs with
          | Some g => Some (if semi then g else TAdd g (ref_l2 cs))
          | None => None
          end
  | H2 => if negb scalar then None else
          match ref_h2 lg d cs, ref_h1 lg d scalar cs with
          | Some h, Some g => Some (if semi then h else TAdd h (TAdd g (ref_l2 cs)))
          | _, _ => None
          end
  end.

(* what the H2 assembly really yields in 2-D / 3-D: only the first Hessian row *)
Definition ref_h2_first_row (lg : bool) (d : nat) (cs : list texpr) : option texpr :=
  match cs with
  | [e] => match hessian_s lg d e with
           | Some (Mat (r0 :: _)) => Some (Classical.tsum (map tsq r0))
           | _ => None
           end
  | _ => None
  end.

Definition input_comps (inp : ninput) : list sx :=
  match inp with NS e => [e] | NV rows => concat rows end.
Definition input_scalar (inp : ninput) : bool := match inp with NS _ => true | NV _ => false end.

(* ======================================================================================
   REFERENCE on a mapped domain: the classical integrand at the physical point F(xhat), written in
   logical coordinates: e^ = e o F (x_i -> F_i, u -> u^), physical gradient = J^-T grad^ (the C03
   pull-back; Proofs/IntegralsP.v pulled_grad_solves), second derivatives by applying it twice.
   The logical integrand of the code is this times the volume element sqrt(det(J^T J)) (C04). *)
Definition mapM_o {A B} (f : A -> option B) (l : list A) : option (list B) := sequence (map f l).

(* [fr] = true: only the first row of the (physical) Hessian, what the code assembles *)
Definition ref_mapped_gen (fr : bool) (semi : bool) (k : nkind) (d : nat) (scalar : bool) (Fm cs : list texpr) : option texpr :=
  match mapM_o (to_logical Fm) cs, jacobian d Fm with
  | Some lcs, Some J =>
      match inverse J with
      | Some Ji =>
          let l2 := ref_l2 lcs in
          let h1 := option_map (fun gs => Classical.tsum (map tsq (concat gs))) (mapM_o (pulled_grad Ji) lcs) in
          let h2 := match lcs with
                    | [e] => match pulled_grad Ji e with
                             | Some g =>
                                 (* hs[j][i] = d_i d_j e *)
                                 option_map (fun hs => Classical.tsum (map tsq (if fr then map (fun h => nth 0 h (TZ 0)) hs else concat hs)))
                                            (mapM_o (pulled_grad Ji) g)
                             | None => None
                             end
                    | _ => None
                    end in
          match k with
          | L2 => Some l2
          | H1 => match h1 with Some g => Some (if semi then g else TAdd g l2) | None => None end
          | H2 => if negb scalar then None else
                  match h2, h1 with
                  | Some h, Some g => Some (if semi then h else TAdd h (TAdd g l2))
                  | _, _ => None
                  end
          end
      | None => None
      end
  | _, _ => None
  end.
Definition ref_mapped := ref_mapped_gen false.

(* the assembled (first-row) H2 integrand on a plain domain, as a reference for classifying the finding *)
Definition assembled_ref_h2 (semi : bool) (lg : bool) (d : nat) (cs : list texpr) : option texpr :=
  match ref_h2_first_row lg d cs, ref_h1 lg d true cs with
  | Some h, Some g => Some (if semi then h else TAdd h (TAdd g (ref_l2 cs)))
  | _, _ => None
  end.
