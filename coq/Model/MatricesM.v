(* Executable model of the symbolic matrix constructors of sympde/calculus/matrices.py (C02, 4th anchor):
     Inverse.__new__  Transpose.__new__  MatSymbolicMul.__new__  MatSymbolicAdd.__new__
     SymbolicTrace.__new__  SymbolicDeterminant.__new__  MatrixElement.__new__
     and the Add / Mul constructor post-processors registered at the bottom of the file,
   arm for arm (same case split, same order, same predicates: isinstance(., Add/Mul/Transpose/Inverse),
   .is_commutative, isinstance(., _coeffs_registery), == 0, == 1, sorted(key=str)).
   Also: the CLASSICAL meaning [mden] of a symbolic matrix expression as a d x d matrix of terminal
   expressions (d = 1, 2, 3), used by the generated case files (tools/props/C02m.py).
   NO proofs here (Proofs/MatricesP.v). *)
From Coq Require Import String ZArith QArith List Bool Arith.
From V Require Import Core.Terminal Core.Classical.
Import ListNotations.
Close Scope Q_scope.
Open Scope string_scope.

(* matrix-valued atoms *)
Inductive mkind :=
| KJac        (* JacobianSymbol(M)            : a MatrixSymbolicExpr *)
| KJacInv     (* JacobianInverseSymbol(M)     : a MatrixSymbolicExpr *)
| KGrad.      (* Grad(F), F a vector function : NOT a MatrixSymbolicExpr (plain sympde expression) *)
(* scalar atoms *)
Inductive skind :=
| KConst      (* Constant  : commutative, in _coeffs_registery *)
| KSF.        (* ScalarFunction : commutative, not in _coeffs_registery *)

Inductive mx :=
| XNum (p : Z) (q : positive)        (* Integer / Rational *)
| XSc (k : skind) (n : string)
| XMat (k : mkind) (n : string)
| XAdd (l : list mx)                 (* Add / MatSymbolicAdd *)
| XMul (l : list mx)                 (* Mul / MatSymbolicMul : ordered *)
| XPow (b : mx) (e : Z)              (* Pow / MatSymbolicPow with an integer exponent *)
| XT (a : mx)                        (* Transpose *)
| XInv (a : mx)                      (* Inverse *)
| XTr (a : mx)                       (* SymbolicTrace *)
| XDet (a : mx)                      (* SymbolicDeterminant *)
| XElem (a : mx) (i j : nat).        (* MatrixElement *)

Section MxInd.
  Variable Pr : mx -> Prop.
  Hypothesis HNum : forall p q, Pr (XNum p q).
  Hypothesis HSc : forall k n, Pr (XSc k n).
  Hypothesis HMat : forall k n, Pr (XMat k n).
  Hypothesis HAdd : forall l, Forall Pr l -> Pr (XAdd l).
  Hypothesis HMul : forall l, Forall Pr l -> Pr (XMul l).
  Hypothesis HPow : forall b e, Pr b -> Pr (XPow b e).
  Hypothesis HT : forall a, Pr a -> Pr (XT a).
  Hypothesis HInv : forall a, Pr a -> Pr (XInv a).
  Hypothesis HTr : forall a, Pr a -> Pr (XTr a).
  Hypothesis HDet : forall a, Pr a -> Pr (XDet a).
  Hypothesis HElem : forall a i j, Pr a -> Pr (XElem a i j).

  Fixpoint mx_ind' (e : mx) : Pr e :=
    match e with
    | XNum p q => HNum p q
    | XSc k n => HSc k n
    | XMat k n => HMat k n
    | XAdd l => HAdd l ((fix go (l : list mx) : Forall Pr l :=
                           match l with [] => Forall_nil _ | x :: r => Forall_cons x (mx_ind' x) (go r) end) l)
    | XMul l => HMul l ((fix go (l : list mx) : Forall Pr l :=
                           match l with [] => Forall_nil _ | x :: r => Forall_cons x (mx_ind' x) (go r) end) l)
    | XPow b e => HPow b e (mx_ind' b)
    | XT a => HT a (mx_ind' a)
    | XInv a => HInv a (mx_ind' a)
    | XTr a => HTr a (mx_ind' a)
    | XDet a => HDet a (mx_ind' a)
    | XElem a i j => HElem a i j (mx_ind' a)
    end.
End MxInd.

(* ------------------------------------------------------------------ structural equality (sympy ==) *)
Definition mkind_eqb (a b : mkind) : bool :=
  match a, b with KJac, KJac | KJacInv, KJacInv | KGrad, KGrad => true | _, _ => false end.
Definition skind_eqb (a b : skind) : bool :=
  match a, b with KConst, KConst | KSF, KSF => true | _, _ => false end.

Fixpoint mx_eqb (a b : mx) {struct a} : bool :=
  match a, b with
  | XNum p q, XNum p' q' => Z.eqb p p' && Pos.eqb q q'
  | XSc k n, XSc k' n' => skind_eqb k k' && String.eqb n n'
  | XMat k n, XMat k' n' => mkind_eqb k k' && String.eqb n n'
  | XAdd l, XAdd l' | XMul l, XMul l' =>
      (fix go (l l' : list mx) : bool :=
         match l, l' with
         | [], [] => true
         | x :: r, y :: s => mx_eqb x y && go r s
         | _, _ => false
         end) l l'
  | XPow x e, XPow x' e' => mx_eqb x x' && Z.eqb e e'
  | XT x, XT x' | XInv x, XInv x' | XTr x, XTr x' | XDet x, XDet x' => mx_eqb x x'
  | XElem x i j, XElem x' i' j' => mx_eqb x x' && Nat.eqb i i' && Nat.eqb j j'
  | _, _ => false
  end.

(* ------------------------------------------------------------------ the predicates of the real code *)
(* .is_commutative of the real classes: numbers, Constant, ScalarFunction, SymbolicTrace and
   SymbolicDeterminant are commutative; JacobianSymbol, JacobianInverseSymbol, Grad, Transpose, Inverse are
   not (class attribute); MatrixElement.is_commutative is None, which both tests of the code
   ([if a.is_commutative], [if not a.is_commutative]) read as "not commutative"; Add / Mul / Pow derive it
   from their arguments (MatSymbolicAdd / Mul / Pow: False, they always have a non-commutative argument). *)
Fixpoint is_comm (e : mx) : bool :=
  match e with
  | XNum _ _ | XSc _ _ => true
  | XMat _ _ => false
  | XAdd l | XMul l => forallb is_comm l
  | XPow b _ => is_comm b
  | XT _ | XInv _ => false
  | XTr _ | XDet _ => true
  | XElem _ _ _ => false
  end.

(* isinstance(a, _coeffs_registery) = (int, float, complex, Number, NumberSymbol, Constant) *)
Definition is_coeff (e : mx) : bool :=
  match e with XNum _ _ | XSc KConst _ => true | _ => false end.

Definition is_num (e : mx) : bool := match e with XNum _ _ => true | _ => false end.
Definition is_zero (e : mx) : bool := match e with XNum Z0 _ => true | _ => false end.
Definition is_one (e : mx) : bool := match e with XNum (Zpos xH) xH => true | _ => false end.
Definition xzero : mx := XNum 0 1.
Definition xone : mx := XNum 1 1.

(* isinstance(a, MatrixSymbolicExpr): decides whether sympy's Add / Mul are post-processed into
   MatSymbolicAdd / MatSymbolicMul (any argument is such an instance) *)
Fixpoint is_msx (e : mx) : bool :=
  match e with
  | XMat KJac _ | XMat KJacInv _ => true
  | XMat KGrad _ => false
  | XT _ | XInv _ => true
  | XAdd l | XMul l => existsb is_msx l
  | XPow b _ => is_msx b
  | _ => false
  end.

Definition flat_mul (l : list mx) : list mx :=
  flat_map (fun x => match x with XMul l' => l' | _ => [x] end) l.
Definition flat_add (l : list mx) : list mx :=
  flat_map (fun x => match x with XAdd l' => l' | _ => [x] end) l.

Definition ncomm (e : mx) : bool := negb (is_comm e).
Definition ncoeff (e : mx) : bool := negb (is_coeff e).
Definition nnum (e : mx) : bool := negb (is_num e).
Definition nzero (e : mx) : bool := negb (is_zero e).
Definition none (e : mx) : bool := negb (is_one e).

Section Model.
  (* str(.) of the real objects: a parameter (the case files supply a table observed on the real
     sub-expressions); the theorems hold for EVERY key function *)
  Variable key : mx -> string.

  (* sorted(args, key=str): stable, ascending *)
  Definition kle (a b : mx) : bool := String.leb (key a) (key b).
  Fixpoint insert (x : mx) (l : list mx) : list mx :=
    match l with
    | [] => [x]
    | y :: r => if kle x y then x :: l else y :: insert x r
    end.
  Definition sort (l : list mx) : list mx := fold_right insert [] l.

  (* ---------------------------------------------------------------- sympy's own Mul on COMMUTATIVE factors
     (Mul( *coeffs) in Transpose / MatSymbolicMul / SymbolicTrace): nested products are flattened, the rational
     numbers are multiplied into one leading coefficient (0 annihilates, 1 disappears), the other factors are
     kept (the case files read them in the order of str(.); sympy's merging of equal bases into powers is not
     modelled: such cases are compared by meaning only) *)
  Definition num_prod (l : list mx) : Q :=
    fold_right (fun x acc => match x with XNum p q => Qmult (p # q) acc | _ => acc end) 1%Q l.
  Definition mul_raw (l : list mx) : mx := match l with [] => xone | [x] => x | _ => XMul l end.
  Definition cmul (l : list mx) : mx :=
    let l := flat_mul l in
    let c := Qred (num_prod l) in
    let rest := sort (filter nnum l) in
    if Z.eqb (Qnum c) 0%Z then xzero
    else if Z.eqb (Qnum c) 1%Z && Pos.eqb (Qden c) 1%positive then mul_raw rest
    else mul_raw (XNum (Qnum c) (Qden c) :: rest).

  (* ---------------------------------------------------------------- MatSymbolicAdd.__new__( *args)
         args = [sympify(a) for a in args if a != 0]
         flatten (one level) the arguments that are Add / MatSymbolicAdd
         0 arguments -> 0 ; 1 argument -> itself ; else sorted by str
     Also the model of sympy's Add followed by the "Add" post-processor (like terms are not collected:
     such cases are compared by meaning only). *)
  Definition mk_matadd (args : list mx) : mx :=
    match flat_add (filter nzero args) with
    | [] => xzero
    | [x] => x
    | l => XAdd (sort l)
    end.

  (* ---------------------------------------------------------------- MatSymbolicMul.__new__( *args) *)
  (* the tail of the constructor, reached when no argument is an Add:
         flatten the arguments that are Mul ; args = non-commutative ones (in order), coeffs = commutative ones
         if coeffs: c = Mul( *coeffs); no args -> c ; c a Mul -> its factors in front ; c != 1 -> c in front
         0 arguments -> 1 ; 1 argument -> itself *)
  Definition mul_finish (args : list mx) : mx :=
    let newargs := flat_mul args in
    let ncs := filter ncomm newargs in
    let coeffs := filter is_comm newargs in
    match coeffs with
    | [] => mul_raw ncs
    | _ =>
        let c := cmul coeffs in
        match ncs with
        | [] => c
        | _ => match c with
               | XMul cl => mul_raw (cl ++ ncs)
               | _ => if is_one c then mul_raw ncs else mul_raw (c :: ncs)
               end
        end
    end.

  (* the loop  for i,a in enumerate(args): if isinstance(a, Add): ... return type(a)( *newargs)
     the first Add is replaced by each of its terms in turn (recursive constructor calls, which find the
     next Add), the results are summed with Add / MatSymbolicAdd *)
  Fixpoint dist (pre rest : list mx) : mx :=
    match rest with
    | [] => mul_finish pre
    | a :: r =>
        match a with
        | XAdd es => mk_matadd (map (fun e => dist (pre ++ [e]) r) es)
        | _ => dist (pre ++ [a]) r
        end
    end.

  Definition mk_matmul (args : list mx) : mx := dist [] (filter none args).

  (* sympy's Mul( *args) on a list that contains non-commutative factors, followed by the "Mul" post-processor
     when one of them is a MatrixSymbolicExpr; without such a factor sympy's Mul keeps sums as factors *)
  Definition plain_mul (args : list mx) : mx :=
    let newargs := flat_mul args in
    let ncs := filter ncomm newargs in
    let c := cmul (filter is_comm newargs) in
    match ncs with
    | [] => c
    | _ => match c with
           | XMul cl => mul_raw (cl ++ ncs)
           | _ => if is_zero c then xzero else if is_one c then mul_raw ncs else mul_raw (c :: ncs)
           end
    end.
  Definition sympy_mul (args : list mx) : mx :=
    if existsb is_zero args then xzero          (* sympy: Mul(.., 0, ..) = 0, before any post-processor *)
    else if existsb is_msx args then mk_matmul args else plain_mul args.

  (* ---------------------------------------------------------------- Inverse.__new__(x) *)
  Definition mk_inverse (x : mx) : mx :=
    match x with
    | XInv a => a
    | _ => XInv x
    end.

  (* ---------------------------------------------------------------- Transpose.__new__(x)
         Transpose -> its argument
         Add       -> Add( *[Transpose(a) for a in args])
         Mul       -> Mul( *commutative factors) * Transpose_raw(Mul( *non-commutative factors))
                      (the non-commutative product is kept WHOLE under one Transpose node)
         else      -> Transpose_raw(x) *)
  Fixpoint mk_transpose (x : mx) : mx :=
    match x with
    | XT a => a
    | XAdd l => mk_matadd (map mk_transpose l)
    | XMul l => mk_matmul [cmul (filter is_comm l); XT (mul_raw (filter ncomm l))]
    | _ => XT x
    end.

  (* ---------------------------------------------------------------- SymbolicTrace.__new__(x)
         Add -> Add( *[SymbolicTrace(a) for a in args])
         Mul -> coeffs = the factors in _coeffs_registery, mats = the others;
                if coeffs: Mul( *coeffs) * SymbolicTrace(arg.func( *mats))
         else / no coeffs -> SymbolicTrace_raw(x)
     [arg.func( *mats)] is a new constructor call on a rebuilt product, hence the fuel *)
  Fixpoint mk_trace (fuel : nat) (x : mx) : option mx :=
    match fuel with
    | 0 => None
    | S n =>
        match x with
        | XAdd l =>
            option_map mk_matadd (sequence (map (mk_trace n) l))
        | XMul l =>
            match filter is_coeff l with
            | [] => Some (XTr x)
            | coeffs =>
                match mk_trace n (if is_msx x then mk_matmul (filter ncoeff l) else plain_mul (filter ncoeff l)) with
                | Some t => Some (cmul [cmul coeffs; t])
                | None => None
                end
            end
        | _ => Some (XTr x)
        end
    end.

  (* SymbolicDeterminant.__new__, MatrixElement.__new__: no rewriting *)
  Definition mk_det (x : mx) : mx := XDet x.
  Definition mk_elem (x : mx) (i j : nat) : mx := XElem x i j.

  (* MatrixSymbolicExpr.__neg__ / __sub__ / __add__ / __mul__ *)
  Definition mk_neg (x : mx) : mx := mk_matmul [XNum (-1) 1; x].
  Definition mk_sub (a b : mx) : mx := mk_matadd [a; mk_neg b].
End Model.

(* name of the outermost arm (for the evidence histograms) *)
Definition arm_transpose (x : mx) : string :=
  match x with XT _ => "transpose" | XAdd _ => "add" | XMul _ => "mul" | _ => "raw" end.
Definition arm_inverse (x : mx) : string := match x with XInv _ => "inverse" | _ => "raw" end.
Definition arm_trace (x : mx) : string :=
  match x with
  | XAdd _ => "add"
  | XMul l => if existsb is_coeff l then "mul-coeffs" else "mul-raw"
  | _ => "raw"
  end.
Definition arm_matmul (args : list mx) : string :=
  if existsb (fun a => match a with XAdd _ => true | _ => false end) args then "distribute"
  else if existsb (fun a => match a with XMul _ => true | _ => false end) args then "flatten"
  else if existsb is_comm args then "coefficients" else "plain".
Definition arm_matadd (args : list mx) : string :=
  if existsb is_zero args then "drop-zero"
  else if existsb (fun a => match a with XAdd _ => true | _ => false end) args then "flatten"
  else "sort".

(* ------------------------------------------------------------------ str(.) table supplied by the case files *)
Fixpoint lookup_key (tbl : list (mx * string)) (e : mx) : string :=
  match tbl with
  | [] => ""
  | (k, s) :: r => if mx_eqb k e then s else lookup_key r e
  end.

(* ================================================================== classical meaning on terminal expressions *)
(* d x d matrices of texpr, row major; scalars are texpr.  Jacobian(M)[i][j] = d_j M_i ;
   Grad(F)[i][j] = d_i F_j (the library's convention, Core/Classical.v) ; logical derivatives. *)
Definition tmat := list (list texpr).
Definition mk_mat (d : nat) (f : nat -> nat -> texpr) : tmat :=
  map (fun i => map (fun j => f i j) (seq0 d)) (seq0 d).
Definition ment (A : tmat) (i j : nat) : texpr := nth j (nth i A []) (TZ 0).
Definition tnumq (p : Z) (q : positive) : texpr := if Pos.eqb q 1 then TZ p else TQ p q.

Definition t_add (d : nat) (A B : tmat) : tmat := mk_mat d (fun i j => TAdd (ment A i j) (ment B i j)).
Definition t_mul (d : nat) (A B : tmat) : tmat :=
  mk_mat d (fun i j => tsum (map (fun k => TMul (ment A i k) (ment B k j)) (seq0 d))).
Definition t_scale (d : nat) (s : texpr) (A : tmat) : tmat := mk_mat d (fun i j => TMul s (ment A i j)).
Definition t_transpose (d : nat) (A : tmat) : tmat := mk_mat d (fun i j => ment A j i).
Definition t_trace (d : nat) (A : tmat) : texpr := tsum (map (fun i => ment A i i) (seq0 d)).
Definition t_ident (d : nat) : tmat := mk_mat d (fun i j => if Nat.eqb i j then TZ 1 else TZ 0).

Definition det2 (a b c e : texpr) : texpr := TSub (TMul a e) (TMul b c).
Definition t_det (d : nat) (A : tmat) : option texpr :=
  let m := ment A in
  match d with
  | 1 => Some (m 0 0)
  | 2 => Some (det2 (m 0 0) (m 0 1) (m 1 0) (m 1 1))
  | 3 => Some (TAdd (TSub (TMul (m 0 0) (det2 (m 1 1) (m 1 2) (m 2 1) (m 2 2)))
                          (TMul (m 0 1) (det2 (m 1 0) (m 1 2) (m 2 0) (m 2 2))))
                    (TMul (m 0 2) (det2 (m 1 0) (m 1 1) (m 2 0) (m 2 1))))
  | _ => None
  end.
(* cofactor C_ij of a 3 x 3 matrix (indices mod 3) *)
Definition cof3 (m : nat -> nat -> texpr) (i j : nat) : texpr :=
  let i1 := Nat.modulo (i + 1) 3 in let i2 := Nat.modulo (i + 2) 3 in
  let j1 := Nat.modulo (j + 1) 3 in let j2 := Nat.modulo (j + 2) 3 in
  det2 (m i1 j1) (m i1 j2) (m i2 j1) (m i2 j2).
Definition t_inv (d : nat) (A : tmat) : option tmat :=
  let m := ment A in
  match d, t_det d A with
  | 1, Some dt => Some [[TInv dt]]
  | 2, Some dt => Some [[TDiv (m 1 1) dt; TDiv (TOpp (m 0 1)) dt]; [TDiv (TOpp (m 1 0)) dt; TDiv (m 0 0) dt]]
  | 3, Some dt => Some (mk_mat 3 (fun i j => TDiv (cof3 m j i) dt))        (* adjugate = transposed cofactors *)
  | _, _ => None
  end.

Definition zpow_t (b : texpr) (e : Z) : texpr :=
  match e with
  | Z0 => TZ 1
  | Zpos n => TPowN b (Npos n)
  | Zneg n => TInv (TPowN b (Npos n))
  end.
Fixpoint t_pow (d : nat) (A : tmat) (n : nat) : tmat :=
  match n with 0 => t_ident d | 1 => A | S k => t_mul d (t_pow d A k) A end.

(* the number 0 is also the zero matrix (MatSymbolicAdd drops it) *)
Definition is_tzero (t : texpr) : bool := match t with TZ Z0 => true | _ => false end.
Definition tv_add (d : nat) (a b : option tensor) : option tensor :=
  match a, b with
  | Some (Sc x), Some (Sc y) => Some (Sc (TAdd x y))
  | Some (Mat A), Some (Mat B) => Some (Mat (t_add d A B))
  | Some (Sc x), Some (Mat B) => if is_tzero x then Some (Mat B) else None
  | Some (Mat A), Some (Sc y) => if is_tzero y then Some (Mat A) else None
  | _, _ => None
  end.
Definition tv_mul (d : nat) (a b : option tensor) : option tensor :=
  match a, b with
  | Some (Sc x), Some (Sc y) => Some (Sc (TMul x y))
  | Some (Sc x), Some (Mat B) => Some (Mat (t_scale d x B))
  | Some (Mat A), Some (Sc y) => Some (Mat (t_scale d y A))
  | Some (Mat A), Some (Mat B) => Some (Mat (t_mul d A B))
  | _, _ => None
  end.

Section MDen.
  Variable d : nat.

  Definition jac_mat (m : string) : tmat := mk_mat d (fun i j => TAt (AMap m i (bump j []))).
  Definition grad_mat (F : string) : tmat := mk_mat d (fun i j => TAt (AFld true F (S j) SNone (bump i []))).

  Fixpoint mden (e : mx) : option tensor :=
    match e with
    | XNum p q => Some (Sc (tnumq p q))
    | XSc KConst n => Some (Sc (TAt (AConst n)))
    | XSc KSF n => Some (Sc (TAt (AFld false n 0 SNone [])))
    | XMat KJac m => Some (Mat (jac_mat m))
    | XMat KJacInv m => option_map Mat (t_inv d (jac_mat m))
    | XMat KGrad F => Some (Mat (grad_mat F))
    | XAdd l =>
        match l with
        | [] => None
        | x :: r => fold_left (fun acc y => tv_add d acc (mden y)) r (mden x)
        end
    | XMul l =>
        match l with
        | [] => Some (Sc (TZ 1))
        | x :: r => fold_left (fun acc y => tv_mul d acc (mden y)) r (mden x)
        end
    | XPow b z =>
        match mden b with
        | Some (Sc x) => Some (Sc (zpow_t x z))
        | Some (Mat A) =>
            match z with
            | Zneg n => option_map Mat (t_inv d (t_pow d A (Pos.to_nat n)))
            | _ => Some (Mat (t_pow d A (Z.to_nat z)))
            end
        | _ => None
        end
    | XT a => match mden a with Some (Mat A) => Some (Mat (t_transpose d A)) | _ => None end
    | XInv a => match mden a with Some (Mat A) => option_map Mat (t_inv d A) | _ => None end
    | XTr a => match mden a with Some (Mat A) => Some (Sc (t_trace d A)) | _ => None end
    | XDet a => match mden a with Some (Mat A) => option_map Sc (t_det d A) | _ => None end
    | XElem a i j =>
        match mden a with
        | Some (Mat A) => if Nat.ltb i d && Nat.ltb j d then Some (Sc (ment A i j)) else None
        | _ => None
        end
    end.
End MDen.

(* comparison codes of the case files: 0 proved equal, 1 not proved, 2 left side undefined, 3 right side undefined *)
Definition entries (t : tensor) : list texpr :=
  match t with Sc x => [x] | Vec l => l | Mat A => concat A end.
Definition all_zero_t (t : tensor) : bool := forallb (fun x => tequiv x (TZ 0)) (entries t).
(* equality of tensors modulo the field axioms; the scalar 0 is also the zero matrix *)
Definition teq0 (a b : tensor) : bool :=
  if tens_equiv a b then true
  else match a, b with
       | Sc x, _ => tequiv x (TZ 0) && all_zero_t b
       | _, Sc y => tequiv y (TZ 0) && all_zero_t a
       | _, _ => false
       end.
Definition mcmp (a b : option tensor) : nat :=
  match a, b with
  | Some x, Some y => if teq0 x y then 0 else 1
  | None, _ => 2
  | _, None => 3
  end.
