(* Executable model of the rewriting constructors of sympde/calculus/core.py (C02):
     Dot Cross Inner Outer Convect (the __new__ methods), Grad Curl Rot Div Laplace Hessian
     Bracket (the eval classmethods), NormalDerivative Jump Average Minus/PlusInterfaceOperator,
   arm for arm (same case split, same order, same helper predicates), together with the abstract
   expression type [gexpr] the user writes and its CLASSICAL meaning [gden] (Core/Classical.v + tD).
   NO proofs here (Proofs/ConstructorsP.v). *)
From Coq Require Import String ZArith List Bool Arith Ascii DecimalString.
From V Require Import Core.Terminal Core.Classical.
Import ListNotations.
Open Scope string_scope.

Inductive op1 := OGrad | OCurl | ORot | ODiv | OLaplace | OHessian | ODn | OJump | OAvg | OMinus | OPlus.
Inductive op2 := ODot | OCross | OInner | OOuter | OConvect | OBracket.

(* what the user writes / what the constructors return *)
Inductive gexpr :=
| GNum (p : Z) (q : positive)          (* Integer / Rational *)
| GConst (n : string)                  (* Constant *)
| GCoord (i : nat)                     (* coordinate function *)
| GSF (n : string)                     (* scalar function *)
| GVF (n : string)                     (* vector function *)
| GComp (n : string) (i : nat)         (* component F[i] of a vector function *)
| GNormal                              (* the unit normal vector n *)
| GAdd (l : list gexpr)
| GMul (l : list gexpr)
| GPow (b e : gexpr)
| GFn (f : fname) (a : gexpr)
| G1 (o : op1) (a : gexpr)
| G2 (o : op2) (a b : gexpr).

Section GInd.
  Variable Pr : gexpr -> Prop.
  Hypothesis HNum : forall p q, Pr (GNum p q).
  Hypothesis HConst : forall n, Pr (GConst n).
  Hypothesis HCoord : forall i, Pr (GCoord i).
  Hypothesis HSF : forall n, Pr (GSF n).
  Hypothesis HVF : forall n, Pr (GVF n).
  Hypothesis HComp : forall n i, Pr (GComp n i).
  Hypothesis HNormal : Pr GNormal.
  Hypothesis HAdd : forall l, Forall Pr l -> Pr (GAdd l).
  Hypothesis HMul : forall l, Forall Pr l -> Pr (GMul l).
  Hypothesis HPow : forall b e, Pr b -> Pr e -> Pr (GPow b e).
  Hypothesis HFn : forall f a, Pr a -> Pr (GFn f a).
  Hypothesis H1 : forall o a, Pr a -> Pr (G1 o a).
  Hypothesis H2 : forall o a b, Pr a -> Pr b -> Pr (G2 o a b).

  Fixpoint gexpr_ind' (e : gexpr) : Pr e :=
    match e with
    | GNum p q => HNum p q
    | GConst n => HConst n
    | GCoord i => HCoord i
    | GSF n => HSF n
    | GVF n => HVF n
    | GComp n i => HComp n i
    | GNormal => HNormal
    | GAdd l => HAdd l ((fix go (l : list gexpr) : Forall Pr l :=
                           match l with [] => Forall_nil _ | x :: r => Forall_cons x (gexpr_ind' x) (go r) end) l)
    | GMul l => HMul l ((fix go (l : list gexpr) : Forall Pr l :=
                           match l with [] => Forall_nil _ | x :: r => Forall_cons x (gexpr_ind' x) (go r) end) l)
    | GPow b x => HPow b x (gexpr_ind' b) (gexpr_ind' x)
    | GFn f a => HFn f a (gexpr_ind' a)
    | G1 o a => H1 o a (gexpr_ind' a)
    | G2 o a b => H2 o a b (gexpr_ind' a) (gexpr_ind' b)
    end.
End GInd.

(* ------------------------------------------------------------------ structural equality (sympy ==) *)
Definition op1_eqb (a b : op1) : bool :=
  match a, b with
  | OGrad, OGrad | OCurl, OCurl | ORot, ORot | ODiv, ODiv | OLaplace, OLaplace | OHessian, OHessian
  | ODn, ODn | OJump, OJump | OAvg, OAvg | OMinus, OMinus | OPlus, OPlus => true
  | _, _ => false
  end.
Definition op2_eqb (a b : op2) : bool :=
  match a, b with
  | ODot, ODot | OCross, OCross | OInner, OInner | OOuter, OOuter | OConvect, OConvect | OBracket, OBracket => true
  | _, _ => false
  end.

Fixpoint geqb (a b : gexpr) {struct a} : bool :=
  match a, b with
  | GNum p q, GNum p' q' => Z.eqb p p' && Pos.eqb q q'
  | GConst n, GConst n' | GSF n, GSF n' | GVF n, GVF n' => String.eqb n n'
  | GCoord i, GCoord i' => Nat.eqb i i'
  | GComp n i, GComp n' i' => String.eqb n n' && Nat.eqb i i'
  | GNormal, GNormal => true
  | GAdd l, GAdd l' | GMul l, GMul l' =>
      (fix go (l l' : list gexpr) : bool :=
         match l, l' with
         | [], [] => true
         | x :: r, y :: s => geqb x y && go r s
         | _, _ => false
         end) l l'
  | GPow b e, GPow b' e' => geqb b b' && geqb e e'
  | GFn f x, GFn f' x' => fname_eqb f f' && geqb x x'
  | G1 o x, G1 o' x' => op1_eqb o o' && geqb x x'
  | G2 o x y, G2 o' x' y' => op2_eqb o o' && geqb x x' && geqb y y'
  | _, _ => false
  end.

(* ------------------------------------------------------------------ the predicates of the real code *)
(* has(expr, (VectorFunction, ScalarFunction)) : walks .args *)
Fixpoint has_types (e : gexpr) : bool :=
  match e with
  | GSF _ | GVF _ | GComp _ _ => true
  | GNum _ _ | GConst _ | GCoord _ | GNormal => false
  | GAdd l | GMul l => existsb has_types l
  | GPow b x => has_types b || has_types x
  | GFn _ a => has_types a
  | G1 _ a => has_types a
  | G2 _ a b => has_types a || has_types b
  end.

(* expr.is_number  (Constant.is_number = True); operator applications are never numbers here:
   the constructors return 0 on numbers, the interface operators keep e.g. Jump(alpha), which the
   model treats as a function-free non-number (semantically indifferent) *)
Fixpoint is_number (e : gexpr) : bool :=
  match e with
  | GNum _ _ | GConst _ => true
  | GCoord _ | GSF _ | GVF _ | GComp _ _ | GNormal => false
  | GAdd l | GMul l => forallb is_number l
  | GPow b x => is_number b && is_number x
  | GFn _ a => is_number a
  | G1 _ _ | G2 _ _ _ => false
  end.

(* isinstance(a, _coeffs_registery) *)
Definition is_coeff (e : gexpr) : bool :=
  match e with GNum _ _ | GConst _ => true | _ => false end.

Definition is_zero (e : gexpr) : bool := match e with GNum Z0 _ => true | _ => false end.
Definition is_one (e : gexpr) : bool := match e with GNum (Zpos xH) xH => true | _ => false end.
Definition gzero : gexpr := GNum 0 1.
Definition gone : gexpr := GNum 1 1.
Definition gint (z : Z) : gexpr := GNum z 1.

(* _is_sympde_atom *)
Fixpoint is_atom (e : gexpr) : bool :=
  match e with
  | GSF _ | GVF _ => true
  | G1 OMinus x | G1 OPlus x => is_atom x      (* a restriction is an atom only if what it restricts is one *)
  | _ => false
  end.
(* expr.space exists (read by the space-kind check of every DiffOperator.eval on a sympde atom; minus(x).space
   is x.space): AttributeError otherwise *)
Fixpoint has_space (e : gexpr) : bool :=
  match e with
  | GSF _ | GVF _ | GComp _ _ => true
  | G1 OMinus x | G1 OPlus x => has_space x
  | _ => false
  end.
(* the final arm of every DiffOperator.eval: the space-kind check (kinds are not modelled), then no rewriting *)
Definition atom_check (e : gexpr) : bool := is_atom e && negb (has_space e).     (* true = raises *)

(* has(x, (VectorFunction, NormalVector, Tuple, Matrix, Grad, Rot, Hessian)): something vector-valued occurs in x
   (walks .args: a component F[i] contains F) *)
Fixpoint has_vec (e : gexpr) : bool :=
  match e with
  | GVF _ | GComp _ _ | GNormal => true
  | GNum _ _ | GConst _ | GCoord _ | GSF _ => false
  | GAdd l | GMul l => existsb has_vec l
  | GPow b x => has_vec b || has_vec x
  | GFn _ a => has_vec a
  | G1 o a => match o with OGrad | ORot | OHessian => true | _ => has_vec a end
  | G2 _ a b => has_vec a || has_vec b
  end.
(* _may_be_matrix: an outer product, a Hessian, the gradient of an expression that contains something vector-valued,
   or a sum / product / restriction / jump / average of such an expression (an over-approximation of "matrix-valued":
   there is no shape inference in calculus/core.py) *)
Fixpoint may_mat (e : gexpr) : bool :=
  match e with
  | G2 OOuter _ _ | G1 OHessian _ => true
  | G1 OGrad z => has_vec z
  | GAdd l | GMul l => existsb may_mat l
  | G1 (OJump | OAvg | OMinus | OPlus) z => may_mat z
  | _ => false
  end.

(* isinstance(a, (Tuple, VectorFunction)) -- tuples are not in the grammar *)
Definition is_vecfun (e : gexpr) : bool := match e with GVF _ => true | _ => false end.

(* .is_commutative of the real classes *)
Fixpoint is_comm (d : nat) (e : gexpr) : bool :=
  match e with
  | GNum _ _ | GConst _ | GCoord _ | GSF _ | GComp _ _ => true
  | GVF _ | GNormal => false
  | GAdd l | GMul l => forallb (is_comm d) l
  | GPow b x => is_comm d b && is_comm d x
  | GFn _ a => is_comm d a
  | G1 o a =>
      match o with
      | OGrad | ORot | OHessian | ODn => false
      | OCurl => Nat.eqb d 2 && is_atom a      (* instance attribute set for atoms in 2D *)
      | ODiv | OLaplace => true
      | OJump | OAvg | OMinus | OPlus => is_comm d a
      end
  | G2 o _ _ =>
      match o with
      | ODot | OInner | OBracket => true
      | OCross | OOuter | OConvect => false
      end
  end.

(* ------------------------------------------------------------------ sympy's Add / Mul (semantics-preserving part) *)
Definition flat_mul (l : list gexpr) : list gexpr :=
  flat_map (fun x => match x with GMul l' => l' | _ => [x] end) l.
Definition flat_add (l : list gexpr) : list gexpr :=
  flat_map (fun x => match x with GAdd l' => l' | _ => [x] end) l.

Definition gmul (l : list gexpr) : gexpr :=
  let l := flat_mul l in
  if existsb is_zero l then gzero else
  match filter (fun x => negb (is_one x)) l with
  | [] => gone
  | [x] => x
  | l' => GMul l'
  end.
Definition gadd (l : list gexpr) : gexpr :=
  match filter (fun x => negb (is_zero x)) (flat_add l) with
  | [] => gzero
  | [x] => x
  | l' => GAdd l'
  end.
Definition gneg (e : gexpr) : gexpr := gmul [gint (-1); e].
(* expr.func applied to a sub-list of the arguments of a canonical Add / Mul *)
Definition gmul_raw (l : list gexpr) : gexpr := match l with [] => gone | [x] => x | _ => GMul l end.
Definition gadd_raw (l : list gexpr) : gexpr := match l with [] => gzero | [x] => x | _ => GAdd l end.

(* e - 1 on exponents *)
Definition gsub1 (e : gexpr) : gexpr :=
  match e with
  | GNum p q => GNum (p - Zpos q) q
  | GAdd (GNum p q :: r) =>
      let c := GNum (p - Zpos q) q in if is_zero c then gadd_raw r else GAdd (c :: r)
  | GAdd r => GAdd (gint (-1) :: r)
  | _ => GAdd [gint (-1); e]
  end.
Definition gpow (b e : gexpr) : gexpr :=
  if is_zero e then gone else if is_one e then b else GPow b e.

(* ------------------------------------------------------------------ str(.) for the canonical argument order *)
Definition nat_str (n : nat) : string := NilEmpty.string_of_uint (Nat.to_uint n).
Definition z_str (z : Z) : string :=
  match z with
  | Z0 => "0"
  | Zpos p => NilEmpty.string_of_uint (Pos.to_uint p)
  | Zneg p => "-" ++ NilEmpty.string_of_uint (Pos.to_uint p)
  end.
Definition op1_name (o : op1) : string :=
  match o with
  | OGrad => "Grad" | OCurl => "Curl" | ORot => "Rot" | ODiv => "Div" | OLaplace => "Laplace"
  | OHessian => "Hessian" | ODn => "NormalDerivative" | OJump => "Jump" | OAvg => "Average"
  | OMinus => "MinusInterfaceOperator" | OPlus => "PlusInterfaceOperator"
  end.
Definition op2_name (o : op2) : string :=
  match o with
  | ODot => "Dot" | OCross => "Cross" | OInner => "Inner" | OOuter => "Outer" | OConvect => "Convect"
  | OBracket => "Bracket"
  end.
Definition fn_name (f : fname) : string :=
  match f with
  | Fsin => "sin" | Fcos => "cos" | Ftan => "tan" | Fexp => "exp" | Flog => "log" | Fsqrt => "sqrt"
  | Fabs => "Abs" | Fother s => s
  end.
Fixpoint join (sep : string) (l : list string) : string :=
  match l with [] => "" | [x] => x | x :: r => x ++ sep ++ join sep r end.

(* sympy's printer on the simple shapes that occur as non-commutative factors (names, operator
   applications, plain sums / products); [tbl] lets the harness supply str(.) as observed on the real
   sub-expressions (sympy orders and signs the terms of sums and products in its own way).
   The theorems hold for EVERY order, see [sgt] below. *)
Fixpoint lookup_str (tbl : list (gexpr * string)) (e : gexpr) : option string :=
  match tbl with
  | [] => None
  | (k, s) :: r => if geqb k e then Some s else lookup_str r e
  end.

Fixpoint gstr (tbl : list (gexpr * string)) (e : gexpr) : string :=
  match lookup_str tbl e with
  | Some s => s
  | None =>
  match e with
  | GNum p q => if Pos.eqb q 1 then z_str p else z_str p ++ "/" ++ z_str (Zpos q)
  | GConst n | GSF n | GVF n => n
  | GCoord i => "x" ++ nat_str (S i)
  | GComp n i => n ++ "[" ++ nat_str i ++ "]"
  | GNormal => "n"
  | GAdd l => join " + " (map (gstr tbl) l)
  | GMul l => join "*" (map (fun x => match x with GAdd _ => "(" ++ gstr tbl x ++ ")" | _ => gstr tbl x end) l)
  | GPow b x =>
      (match b with GAdd _ | GMul _ | GPow _ _ => "(" ++ gstr tbl b ++ ")" | _ => gstr tbl b end) ++ "**" ++
      (match x with GAdd _ | GMul _ | GPow _ _ => "(" ++ gstr tbl x ++ ")" | _ => gstr tbl x end)
  | GFn f a => fn_name f ++ "(" ++ gstr tbl a ++ ")"
  | G1 o a => op1_name o ++ "(" ++ gstr tbl a ++ ")"
  | G2 o a b => op2_name o ++ "(" ++ gstr tbl a ++ ", " ++ gstr tbl b ++ ")"
  end
  end.
(* Python: str(a) > str(b) *)
Definition str_gt_tbl (tbl : list (gexpr * string)) (a b : gexpr) : bool := String.ltb (gstr tbl b) (gstr tbl a).
Definition str_gt : gexpr -> gexpr -> bool := str_gt_tbl [].

(* ------------------------------------------------------------------ results *)
Inductive res := Ok (e : gexpr) | Raise | NoFuel.
Definition bind (r : res) (k : gexpr -> res) : res :=
  match r with Ok e => k e | Raise => Raise | NoFuel => NoFuel end.
Notation "'let!' x ':=' r 'in' k" := (bind r (fun x => k)) (at level 200, x name, right associativity).

Fixpoint mapM (f : gexpr -> res) (l : list gexpr) : res * list gexpr :=
  (* (status, results) : status Ok _ iff every call succeeded *)
  match l with
  | [] => (Ok gzero, [])
  | x :: r =>
      match f x with
      | Ok y => let (s, ys) := mapM f r in (s, y :: ys)
      | Raise => (Raise, [])
      | NoFuel => (NoFuel, [])
      end
  end.
Definition bindL (p : res * list gexpr) (k : list gexpr -> res) : res :=
  match fst p with Ok _ => k (snd p) | Raise => Raise | NoFuel => NoFuel end.

Section Model.
  Variable d : nat.                                (* dimension (only for Curl's commutativity) *)
  Variable sgt : gexpr -> gexpr -> bool.           (* str(a) > str(b) *)

  Notation comm := (is_comm d).

  (* ============================================================ Dot Cross Inner Outer Convect *)
  (* the factors pulled out of the second argument: the commutative ones; for Convect (whose second argument is
     differentiated) only the commutative NUMBERS *)
  Definition pulled2 (o : op2) (i : gexpr) : bool :=
    match o with OConvect => comm i && is_number i | _ => comm i end.

  Definition bil_zero (o : op2) (a1 a2 : gexpr) : bool :=
    match o with
    | OConvect => is_zero a1 || is_number a2
    | _ => is_zero a1 || is_zero a2
    end.

  Fixpoint mk_bil (fuel : nat) (o : op2) (a1 a2 : gexpr) : res :=
    match fuel with
    | 0 => NoFuel
    | S k =>
        if (match o with OCross => geqb a1 a2 | _ => false end) then Ok gzero else
        if bil_zero o a1 a2 then Ok gzero else
        match a1 with
        | GAdd l =>
            let a := filter has_types l in
            let b := filter (fun i => negb (has_types i)) l in
            bindL (mapM (fun i => mk_bil k o i a2) a) (fun ra =>
            let! rb := mk_bil k o (gadd_raw b) a2 in
            Ok (gadd (ra ++ [rb])))
        | _ =>
        match a2 with
        | GAdd l =>
            let a := filter has_types l in
            let b := filter (fun i => negb (has_types i)) l in
            bindL (mapM (fun i => mk_bil k o a1 i) a) (fun ra =>
            let! rb := mk_bil k o a1 (gadd_raw b) in
            Ok (gadd (ra ++ [rb])))
        | _ =>
            let fa := match a1 with GMul l => l | _ => [a1] end in
            let fb := match a2 with GMul l => l | _ => [a2] end in
            let args1 := filter (fun i => negb (comm i)) fa in
            let c1 := filter comm fa in
            let args2 := filter (fun i => negb (pulled2 o i)) fb in
            let c2 := filter (pulled2 o) fb in
            match args1, args2 with
            | [], _ | _, [] => Raise                       (* reduce(mul, []) : TypeError *)
            | _, _ =>
                let a := gmul args1 in
                let b := gmul args2 in
                let c := gmul [gmul c1; gmul c2] in
                match o with
                | ODot =>        (* canonical order only when neither factor may be matrix-valued *)
                    if negb (may_mat a || may_mat b) && sgt a b then Ok (gmul [c; G2 o b a]) else Ok (gmul [c; G2 o a b])
                | OInner => if sgt a b then Ok (gmul [c; G2 o b a]) else Ok (gmul [c; G2 o a b])
                | OCross => if sgt a b then Ok (gmul [gneg c; G2 o b a]) else Ok (gmul [c; G2 o a b])
                | _ => Ok (gmul [c; G2 o a b])
                end
            end
        end
        end
    end.

  (* ============================================================ Grad *)
  (* the shared prelude of all DiffOperator.eval: no function inside *)
  Definition no_types (o : op1) (e : gexpr) : gexpr :=
    if is_number e then gzero else G1 o e.

  Fixpoint mk_grad (fuel : nat) (e : gexpr) : res :=
    match fuel with
    | 0 => NoFuel
    | S k =>
        if negb (has_types e) then Ok (no_types OGrad e) else
        match e with
        | GAdd l =>
            let a := filter has_types l in
            let b := filter (fun i => negb (has_types i)) l in
            bindL (mapM (mk_grad k) a) (fun ra =>
            let! rb := mk_grad k (gadd_raw b) in
            Ok (gadd (ra ++ [rb])))
        | GMul l =>
            let cm := filter comm l in
            let ncm := filter (fun a => negb (comm a)) l in
            let coeffs := filter is_number cm in
            let free := filter (fun a => negb (is_number a) && negb (has_types a)) cm in
            let cm' := filter (fun a => negb (is_number a) && has_types a) cm in
            let a := gmul coeffs in
            let b1 := gmul_raw free in
            let b2 := gmul_raw cm' in
            let b3 := gmul_raw ncm in
            match ncm, free, cm' with
            | _ :: _, _, _ => Ok (gmul [a; G1 OGrad (gmul [b1; b2; b3])])
            | [], _ :: _, _ =>
                let! d_b2 := mk_grad k b2 in
                Ok (gadd [gmul [a; b1; d_b2]; gmul [a; G1 OGrad b1; b2]])
            | [], [], [x] => let! r := mk_grad k x in Ok (gmul [a; r])
            | [], [], x :: rest =>
                let arg2 := gmul_raw rest in
                let! d1 := mk_grad k x in
                let! d2 := mk_grad k arg2 in
                Ok (gadd [gmul [a; x; d2]; gmul [a; d1; arg2]])
            | [], [], [] => Ok gzero
            end
        | GPow b x =>
            if negb (is_number x) then
              (* general power rule: e*b**(e-1)*Grad(b) + b**e*log(b)*Grad(e) *)
              let! db := mk_grad k b in
              let! dx := mk_grad k x in
              Ok (gadd [gmul [x; gpow b (gsub1 x); db]; gmul [GPow b x; GFn Flog b; dx]])
            else
            let! a := mk_grad k b in
            let ex := gpow b (gsub1 x) in
            match a with
            | GAdd l => Ok (gadd (map (fun i => gmul [x; ex; i]) l))
            | _ => Ok (gmul [x; a; ex])
            end
        | _ => if atom_check e then Raise else Ok (G1 OGrad e)
        end
    end.

  (* ============================================================ Curl Rot Hessian *)
  Fixpoint mk_lin (fuel : nat) (o : op1) (e : gexpr) : res :=
    match fuel with
    | 0 => NoFuel
    | S k =>
        if negb (has_types e) then Ok (no_types o e) else
        match e with
        | GAdd l =>
            let a := filter has_types l in
            let b := filter (fun i => negb (has_types i)) l in
            bindL (mapM (mk_lin k o) a) (fun ra =>
            let! rb := mk_lin k o (gadd_raw b) in
            Ok (gadd (ra ++ [rb])))
        | GMul l =>
            let coeffs := filter is_number l in
            let vectors := filter (fun a => negb (is_number a)) l in
            Ok (gmul [gmul coeffs; G1 o (gmul_raw vectors)])
        | G1 OGrad _ => match o with OCurl => Ok gzero | _ => Ok (G1 o e) end
        | _ => if atom_check e then Raise else Ok (G1 o e)
        end
    end.
  Definition mk_curl f e := mk_lin f OCurl e.
  Definition mk_rot f e := mk_lin f ORot e.
  Definition mk_hessian f e := mk_lin f OHessian e.

  (* ============================================================ Div *)
  Fixpoint mk_div (fuel : nat) (e : gexpr) : res :=
    match fuel with
    | 0 => NoFuel
    | S k =>
        if negb (has_types e) then Ok (no_types ODiv e) else
        match e with
        | GAdd l =>
            let a := filter has_types l in
            let b := filter (fun i => negb (has_types i)) l in
            bindL (mapM (mk_div k) a) (fun ra =>
            let! rb := mk_div k (gadd_raw b) in
            Ok (gadd (ra ++ [rb])))
        | GMul l =>
            let coeffs := filter is_number l in
            let vectors := filter (fun a => negb (is_number a)) l in
            let a := gmul coeffs in
            match vectors with
            | [x; y] =>
                let rule (f F : gexpr) : res :=
                  (* a*(f times Div(F) + Dot(F, grad(f))) ; any exception: a*cls(product of vectors, evaluate=False) *)
                  match mk_div k F with
                  | Ok dF =>
                      match mk_grad k f with
                      | Ok gf =>
                          match mk_bil k ODot F gf with
                          | Ok dt => Ok (gmul [a; gadd [gmul [f; dF]; dt]])
                          | Raise => Ok (gmul [a; G1 ODiv (gmul_raw vectors)])
                          | NoFuel => NoFuel
                          end
                      | Raise => Ok (gmul [a; G1 ODiv (gmul_raw vectors)])
                      | NoFuel => NoFuel
                      end
                  | Raise => Ok (gmul [a; G1 ODiv (gmul_raw vectors)])
                  | NoFuel => NoFuel
                  end in
                if is_vecfun x then rule y x
                else if is_vecfun y then rule x y
                else Ok (gmul [a; G1 ODiv (gmul_raw vectors)])
            | [] => Ok a
            | _ => Ok (gmul [a; G1 ODiv (gmul_raw vectors)])
            end
        | G2 OCross a b =>
            let! ca := mk_lin k OCurl a in
            let! cb := mk_lin k OCurl b in
            let! t1 := mk_bil k ODot b ca in
            let! t2 := mk_bil k ODot a cb in
            Ok (gadd [t1; gneg t2])
        | G1 OCurl _ => Ok gzero
        | _ => if atom_check e then Raise else Ok (G1 ODiv e)
        end
    end.

  (* ============================================================ Laplace *)
  Fixpoint mk_laplace (fuel : nat) (e : gexpr) : res :=
    match fuel with
    | 0 => NoFuel
    | S k =>
        if negb (has_types e) then Ok (no_types OLaplace e) else
        match e with
        | GAdd l =>
            let a := filter has_types l in
            let b := filter (fun i => negb (has_types i)) l in
            bindL (mapM (mk_laplace k) a) (fun ra =>
            let! rb := mk_laplace k (gadd_raw b) in
            Ok (gadd (ra ++ [rb])))
        | GMul l =>
            let coeffs := filter is_number l in
            let vectors := filter (fun a => negb (is_number a)) l in
            let a := gmul coeffs in
            match vectors with
            | [f; g] =>
                if negb (comm f && comm g) then Ok (gmul [a; G1 OLaplace (gmul_raw vectors)]) else
                let! lg := mk_laplace k g in
                let! lf := mk_laplace k f in
                let! gf := mk_grad k f in
                let! gg := mk_grad k g in
                let! dt := mk_bil k ODot gf gg in
                Ok (gmul [a; gadd [gmul [f; lg]; gmul [g; lf]; gmul [gint 2; dt]]])
            | _ => Ok (gmul [a; G1 OLaplace (gmul_raw vectors)])
            end
        | _ => if atom_check e then Raise else Ok (G1 OLaplace e)
        end
    end.

  (* ============================================================ Bracket *)
  (* one Leibniz term per non-coefficient factor: the i-th factor replaced by its bracket *)
  Fixpoint leibniz_terms (br : gexpr -> res) (pre post : list gexpr) : res * list gexpr :=
    match post with
    | [] => (Ok gzero, [])
    | f :: r =>
        match br f with
        | Ok bf =>
            let (s, ts) := leibniz_terms br (pre ++ [f]) r in
            (s, gmul (pre ++ bf :: r) :: ts)
        | Raise => (Raise, [])
        | NoFuel => (NoFuel, [])
        end
    end.

  Fixpoint mk_bracket (fuel : nat) (a1 a2 : gexpr) : res :=
    match fuel with
    | 0 => NoFuel
    | S k =>
        if is_number a1 || is_number a2 then Ok gzero else
        if geqb a1 a2 then Ok gzero else
        match a1 with
        | GAdd l => bindL (mapM (fun a => mk_bracket k a a2) l) (fun rs => Ok (gadd rs))
        | GMul l =>
            let coeffs := filter is_coeff l in
            let fields := filter (fun a => negb (is_coeff a)) l in
            bindL (leibniz_terms (fun f => mk_bracket k f a2) [] fields) (fun ts =>
            Ok (gmul [gmul coeffs; gadd ts]))
        | _ =>
        match a2 with
        | GAdd l => bindL (mapM (fun a => mk_bracket k a1 a) l) (fun rs => Ok (gadd rs))
        | GMul l =>
            let coeffs := filter is_coeff l in
            let fields := filter (fun a => negb (is_coeff a)) l in
            bindL (leibniz_terms (fun f => mk_bracket k a1 f) [] fields) (fun ts =>
            Ok (gmul [gmul coeffs; gadd ts]))
        | _ =>
            if sgt a1 a2 then Ok (gneg (G2 OBracket a2 a1)) else Ok (G2 OBracket a1 a2)
        end
        end
    end.

  (* ============================================================ NormalDerivative Jump Average Minus Plus *)
  Definition is_side_op (o : op1) : bool := match o with OMinus | OPlus => true | _ => false end.

  (* The product arm (numeric / Constant coefficients [a] are pulled out first by all five):
       NormalDerivative  a derivation: 0 on a product of coefficients only, Leibniz rule on the other factors
       Jump / Average    Jump of coefficients only = 0 (Average: the coefficient); one other factor: recursion;
                         several: NO rewriting, a * Jump(f*g) (neither a derivation nor multiplicative)
       Minus / Plus      multiplicative: a * prod_i minus(f_i)
     [fallback] is the except: branch (a constructor called inside raised). *)
  Fixpoint mk_iface (fuel : nat) (o : op1) (e : gexpr) : res :=
    match fuel with
    | 0 => NoFuel
    | S k =>
        match e with
        | GAdd l => bindL (mapM (mk_iface k o) l) (fun rs => Ok (gadd rs))
        | GMul l =>
            let coeffs := filter is_coeff l in
            let vectors := filter (fun a => negb (is_coeff a)) l in
            let a := gmul coeffs in
            let fallback := Ok (gmul [a; G1 o (gmul_raw vectors)]) in
            match o with
            | OMinus | OPlus =>
                (* b = Mul( *[cls(f) for f in vectors]) *)
                match mapM (mk_iface k o) vectors with
                | (Ok _, rs) => Ok (gmul [a; gmul rs])
                | (Raise, _) => fallback
                | (NoFuel, _) => NoFuel
                end
            | OJump | OAvg =>
                match vectors with
                | [] => Ok (gmul [a; match o with OJump => gzero | _ => gone end])
                | [f] => match mk_iface k o f with Ok b => Ok (gmul [a; b]) | Raise => fallback | NoFuel => NoFuel end
                | _ => fallback
                end
            | _ =>                                   (* NormalDerivative *)
                match vectors with
                | [] => Ok (gmul [a; gzero])
                | [f] => match mk_iface k o f with Ok b => Ok (gmul [a; b]) | Raise => fallback | NoFuel => NoFuel end
                | [f; g] =>
                    match mk_iface k o g, mk_iface k o f with
                    | Ok cg, Ok cf => Ok (gmul [a; gadd [gmul [f; cg]; gmul [g; cf]]])
                    | NoFuel, _ | _, NoFuel => NoFuel
                    | _, _ => fallback
                    end
                | lft :: rest =>
                    let rgt := gmul_raw rest in
                    match mk_iface k o lft, mk_iface k o rgt with
                    | Ok fl, Ok fr => Ok (gmul [a; gadd [gmul [lft; fr]; gmul [fl; rgt]]])
                    | NoFuel, _ | _, NoFuel => NoFuel
                    | _, _ => fallback
                    end
                end
            end
        | G1 ODn u =>
            if is_side_op o then
              let! cu := mk_iface k o u in
              let! gu := mk_grad k cu in
              mk_bil k ODot gu (G1 o GNormal)
            else Ok (G1 o e)
        | GNormal => Ok (G1 o GNormal)            (* MinusNormalVector('n') / PlusNormalVector('n') *)
        | _ => if is_side_op o && is_zero e then Ok gzero else Ok (G1 o e)
        end
    end.

  (* ============================================================ components of a restriction *)
  (* MinusInterfaceOperator.__getitem__ / PlusInterfaceOperator.__getitem__ :  type(self)(self.args[0][key])
     on self = minus(E) / plus(E) ([o] = the class of self, E = its argument).  minus(E) is such an object only when
     it was not rewritten; inside the grammar its argument is subscriptable when it is a vector function (F[i], any i:
     no range check); a sum or a product (minus(F + G), minus(2*F) = 2*minus(F)) is not subscriptable: TypeError.
     The result keeps the side of self: plus(F)[i] = plus(F[i]). *)
  Definition mk_getitem (o : op1) (e : gexpr) (i : nat) : res :=
    match e with
    | GVF n => Ok (G1 o (GComp n i))
    | _ => Raise
    end.

  (* ============================================================ entry points *)
  Definition mk1 (fuel : nat) (o : op1) (e : gexpr) : res :=
    match o with
    | OGrad => mk_grad fuel e
    | OCurl | ORot | OHessian => mk_lin fuel o e
    | ODiv => mk_div fuel e
    | OLaplace => mk_laplace fuel e
    | ODn | OJump | OAvg | OMinus | OPlus => mk_iface fuel o e
    end.
  Definition mk2 (fuel : nat) (o : op2) (a b : gexpr) : res :=
    match o with
    | OBracket => mk_bracket fuel a b
    | _ => mk_bil fuel o a b
    end.

  (* the arm of the OUTERMOST call (for the rule-tag tie and the coverage histograms) *)
  Definition arm1 (o : op1) (e : gexpr) : string :=
    match o with
    | ODn | OJump | OAvg | OMinus | OPlus =>
        match e with
        | GAdd _ => "add"
        | GMul l =>
            match o, filter (fun a => negb (is_coeff a)) l with
            | _, [] => "mul-coeffs"
            | (OMinus | OPlus), _ => "mul-restrict-factors"
            | _, [_] => "mul-one"
            | (OJump | OAvg), _ => "mul-keep-product"
            | _, [_; _] => "mul-two"
            | _, _ => "mul-many"
            end
        | G1 ODn _ => if is_side_op o then "normal-derivative" else "atom"
        | GNormal => "normal-vector"
        | _ => if is_side_op o && is_zero e then "zero" else "atom"
        end
    | _ =>
        if negb (has_types e) then (if is_number e then "number" else "no-function") else
        match e with
        | GAdd _ => "add"
        | GMul l =>
            match o with
            | OGrad =>
                let cm := filter comm l in
                match filter (fun a => negb (comm a)) l,
                      filter (fun a => negb (is_number a) && negb (has_types a)) cm,
                      filter (fun a => negb (is_number a) && has_types a) cm with
                | _ :: _, _, _ => "mul-noncommutative"
                | [], _ :: _, _ => "mul-free-factor"
                | [], [], [_] => "mul-one"
                | [], [], _ :: _ => "mul-product-rule"
                | [], [], [] => "mul-zero"
                end
            | ODiv =>
                match filter (fun a => negb (is_number a)) l with
                | [x; y] => if is_vecfun x || is_vecfun y then "mul-two-vectors" else "mul-two-other"
                | _ => "mul-coeff"
                end
            | OLaplace =>
                match filter (fun a => negb (is_number a)) l with
                | [f; g] => if comm f && comm g then "mul-two" else "mul-coeff"
                | _ => "mul-coeff"
                end
            | _ => "mul-coeff"
            end
        | GPow _ _ => match o with OGrad => "pow" | _ => "atom" end
        | G1 OGrad _ => match o with OCurl => "curl-grad" | _ => "atom" end
        | G1 OCurl _ => match o with ODiv => "div-curl" | _ => "atom" end
        | G2 OCross _ _ => match o with ODiv => "div-cross" | _ => "atom" end
        | _ => "atom"
        end
    end.

  Definition arm2 (o : op2) (a1 a2 : gexpr) : string :=
    match o with
    | OBracket =>
        if is_number a1 || is_number a2 then "number" else
        if geqb a1 a2 then "equal" else
        match a1 with
        | GAdd _ => "add-1" | GMul _ => "mul-1"
        | _ => match a2 with
               | GAdd _ => "add-2" | GMul _ => "mul-2"
               | _ => if sgt a1 a2 then "swap" else "keep"
               end
        end
    | _ =>
        if (match o with OCross => geqb a1 a2 | _ => false end) then "equal" else
        if bil_zero o a1 a2 then "zero" else
        match a1 with
        | GAdd _ => "add-1"
        | _ => match a2 with
               | GAdd _ => "add-2"
               | _ =>
                   let fa := match a1 with GMul l => l | _ => [a1] end in
                   let fb := match a2 with GMul l => l | _ => [a2] end in
                   match filter (fun i => negb (comm i)) fa, filter (fun i => negb (pulled2 o i)) fb with
                   | [], _ | _, [] => "raise"
                   | x, y =>
                       let pulled := match (filter comm fa ++ filter (pulled2 o) fb)%list with [] => "" | _ => "-factors" end in
                       match o with
                       | ODot => if negb (may_mat (gmul x) || may_mat (gmul y)) && sgt (gmul x) (gmul y)
                                 then "swap" ++ pulled else "keep" ++ pulled
                       | OInner | OCross => if sgt (gmul x) (gmul y) then "swap" ++ pulled else "keep" ++ pulled
                       | _ => "keep" ++ pulled
                       end
                   end
               end
        end
    end.
End Model.

(* ------------------------------------------------------------------ the classical meaning *)
(* tensors of terminal expressions; the literal 0 is the zero of every shape *)
Definition tzero (t : tensor) : bool := match t with Sc (TZ Z0) => true | _ => false end.

Fixpoint zip2 (f : texpr -> texpr -> texpr) (a b : list texpr) : option (list texpr) :=
  match a, b with
  | [], [] => Some []
  | x :: r, y :: s => option_map (cons (f x y)) (zip2 f r s)
  | _, _ => None
  end.
Fixpoint zip2m (f : texpr -> texpr -> texpr) (a b : list (list texpr)) : option (list (list texpr)) :=
  match a, b with
  | [], [] => Some []
  | x :: r, y :: s =>
      match zip2 f x y, zip2m f r s with Some z, Some zs => Some (z :: zs) | _, _ => None end
  | _, _ => None
  end.

Definition tbin (f : texpr -> texpr -> texpr) (a b : tensor) : option tensor :=
  match a, b with
  | Sc x, Sc y => Some (Sc (f x y))
  | Vec l, Vec m => option_map Vec (zip2 f l m)
  | Mat A, Mat B => option_map Mat (zip2m f A B)
  | _, _ => None
  end.
Definition tmap (f : texpr -> texpr) (a : tensor) : tensor :=
  match a with
  | Sc x => Sc (f x)
  | Vec l => Vec (map f l)
  | Mat A => Mat (map (map f) A)
  end.

Definition tadd (a b : tensor) : option tensor :=
  if tzero a then Some b else if tzero b then Some a else tbin TAdd a b.
Definition tsub (a b : tensor) : option tensor := tbin TSub a b.
(* product: at most one factor is not a scalar *)
Definition tmul (a b : tensor) : option tensor :=
  match a, b with
  | Sc x, _ => Some (tmap (TMul x) b)
  | _, Sc y => Some (tmap (fun e => TMul e y) a)
  | _, _ => None
  end.

Fixpoint tsum_t (l : list tensor) : option tensor :=
  match l with
  | [] => None
  | [x] => Some x
  | x :: r => match tsum_t r with Some s => tadd x s | None => None end
  end.
Fixpoint tprod_t (l : list tensor) : option tensor :=
  match l with
  | [] => None
  | [x] => Some x
  | x :: r => match tprod_t r with Some s => tmul x s | None => None end
  end.

(* integer powers as in Core/SExpr.sx2t *)
Definition zpow (b : texpr) (z : Z) : texpr :=
  match z with
  | Z0 => TPowN b 0
  | Zpos n => TPowN b (Npos n)
  | Zneg n => TInv (TPowN b (Npos n))
  end.
Definition tnum (p : Z) (q : positive) : texpr := if Pos.eqb q 1 then TZ p else TQ p q.

(* b ** e with e = fractional-or-symbolic part + integer n : read as b^part * b^n (exponent law;
   the same reading as tools/impl/ser.py) *)
Definition zfloor (p : Z) (q : positive) : Z := (p / Zpos q)%Z.
Definition tpow (b : texpr) (part : option texpr) (n : Z) : texpr :=
  match part with
  | None => zpow b n
  | Some e => if Z.eqb n 0 then TPowG b e else TMul (TPowG b e) (zpow b n)
  end.

Definition scalar_of (t : option tensor) : option texpr :=
  match t with Some (Sc x) => Some x | _ => None end.

(* a function without derivative: the family flag of the (empty) multi-index is immaterial; [false] is what
   the serialiser of implementation results writes *)
Definition fld_atom (n : string) (c : nat) (sd : side) : texpr := TAt (AFld false n c sd []).

Section Den.
  Variable lg : bool.
  Variable d : nat.

  Definition normal_vec (sd : side) : list texpr := map (fun i => TAt (ANormal sd i)) (seq0 d).

  Definition den1 (o : op1) (sd : side) (a : option tensor) (am ap : option tensor) : option tensor :=
    (* a = meaning of the argument on the current side, am / ap = on the minus / plus side *)
    match o with
    | OGrad => match a with Some (Sc t) => grad_s lg d t | Some (Vec l) => grad_v lg d l | _ => None end
    | OCurl => match a with Some (Vec l) => curl_v lg d l | _ => None end
    | ORot => match a with Some (Sc t) => if Nat.eqb d 2 then rot_s lg t else None | _ => None end
    | ODiv => match a with Some (Vec l) => div_v lg d l | Some (Mat A) => div_m lg d A | _ => None end
    | OLaplace => match a with Some (Sc t) => laplace_s lg d t | Some (Vec l) => laplace_v lg d l | _ => None end
    | OHessian => match a with Some (Sc t) => hessian_s lg d t | _ => None end
    | ODn => match a with
             | Some (Sc t) => match grad_s lg d t with Some (Vec g) => Some (dot_v g (normal_vec sd)) | _ => None end
             | _ => None
             end
    | OMinus => match sd with SNone => am | _ => None end
    | OPlus => match sd with SNone => ap | _ => None end
    | OJump => match sd, am, ap with SNone, Some m, Some p => tsub m p | _, _, _ => None end
    | OAvg => match sd, am, ap with
              | SNone, Some m, Some p => option_map (tmap (fun e => TMul (TQ 1 2) e)) (tbin TAdd m p)
              | _, _, _ => None
              end
    end.

  (* Dot on mixed shapes (core/algebra.py Dot_2d / Dot_3d): matrix . vector contracts the COLUMN index of the matrix,
     vector . matrix its ROW index; both are vectors.  (Core/Classical.v only has the vector . vector product
     [dot_v]; these two are defined here.)  matrix . matrix has no meaning (the library reads both matrices as
     flat vectors). *)
  Definition sc_of (t : tensor) : texpr := match t with Sc x => x | _ => TZ 0 end.
  Definition matvec (A : list (list texpr)) (v : list texpr) : list texpr :=
    map (fun row => sc_of (dot_v row v)) A.
  Definition vecmat (v : list texpr) (A : list (list texpr)) : list texpr :=
    map (fun j => sc_of (dot_v v (map (fun row => nth j row (TZ 0)) A))) (seq0 (length v)).
  Definition den2 (o : op2) (a b : option tensor) : option tensor :=
    match o, a, b with
    | ODot, Some (Vec l), Some (Vec m) => if Nat.eqb (length l) (length m) then Some (dot_v l m) else None
    | ODot, Some (Mat A), Some (Vec m) =>
        if forallb (fun row => Nat.eqb (length row) (length m)) A then Some (Vec (matvec A m)) else None
    | ODot, Some (Vec l), Some (Mat B) =>
        if Nat.eqb (length B) (length l) && forallb (fun row => Nat.eqb (length row) (length l)) B
        then Some (Vec (vecmat l B)) else None
    | OCross, Some (Vec l), Some (Vec m) => cross_v d l m
    | OInner, Some (Vec l), Some (Vec m) => if Nat.eqb (length l) (length m) then Some (dot_v l m) else None
    | OInner, Some (Mat A), Some (Mat B) => Some (inner_m A B)
    | OOuter, Some (Vec l), Some (Vec m) => Some (outer_v l m)
    | OConvect, Some (Vec l), Some (Vec m) => convect_v lg d l m
    | OBracket, Some (Sc f), Some (Sc g) => if Nat.eqb d 2 then bracket_s lg f g else None
    | _, _, _ => None
    end.

  Fixpoint gden (sd : side) (e : gexpr) {struct e} : option tensor :=
    match e with
    | GNum p q => Some (Sc (tnum p q))
    | GConst n => Some (Sc (TAt (AConst n)))
    | GCoord i => Some (Sc (TAt (ACoord lg i)))
    | GSF n => Some (Sc (fld_atom n 0 sd))
    | GVF n => Some (Vec (map (fun i => fld_atom n (S i) sd) (seq0 d)))
    | GComp n i => Some (Sc (fld_atom n (S i) sd))
    | GNormal => Some (Vec (normal_vec sd))
    | GAdd l =>
        match sequence (map (gden sd) l) with Some ts => tsum_t ts | None => None end
    | GMul l =>
        match sequence (map (gden sd) l) with Some ts => tprod_t ts | None => None end
    | GPow b x =>
        match scalar_of (gden sd b) with
        | None => None
        | Some tb =>
            match x with
            | GNum p q =>
                let n := zfloor p q in
                let fr := (p - n * Zpos q)%Z in
                Some (Sc (tpow tb (if Z.eqb fr 0 then None else Some (tnum fr q)) n))
            | GAdd (GNum p q :: r) =>
                let n := zfloor p q in
                let fr := (p - n * Zpos q)%Z in
                match sequence (map (fun y => scalar_of (gden sd y)) r) with
                | Some ts =>
                    let parts := if Z.eqb fr 0 then ts else tnum fr q :: ts in
                    Some (Sc (tpow tb (match parts with [] => None | _ => Some (tsum parts) end) n))
                | None => None
                end
            | _ =>
                match scalar_of (gden sd x) with
                | Some tx => Some (Sc (TPowG tb tx))
                | None => None
                end
            end
        end
    | GFn f a => match scalar_of (gden sd a) with Some t => Some (Sc (TFn f t)) | None => None end
    | G1 o a => den1 o sd (gden sd a) (gden SMinus a) (gden SPlus a)
    | G2 o a b => den2 o (gden sd a) (gden sd b)
    end.
End Den.

(* ------------------------------------------------------------------ typing (shape inference) and the guards of the theorems *)
Inductive shape := ShS | ShV | ShM.
Definition shape_eqb (a b : shape) : bool :=
  match a, b with ShS, ShS | ShV, ShV | ShM, ShM => true | _, _ => false end.

(* product: at most one factor is not a scalar *)
Definition shape_mul (a b : option shape) : option shape :=
  match a, b with
  | Some ShS, x => x
  | x, Some ShS => x
  | _, _ => None
  end.
Definition shape_add (a b : option shape) : option shape :=
  match a, b with
  | Some x, Some y => if shape_eqb x y then Some x else None
  | _, _ => None
  end.

Definition shape1 (d : nat) (o : op1) (a : option shape) : option shape :=
  match o, a with
  | OGrad, Some ShS => Some ShV
  | OGrad, Some ShV => Some ShM
  | OCurl, Some ShV => match d with 2 => Some ShS | 3 => Some ShV | _ => None end
  | ORot, Some ShS => if Nat.eqb d 2 then Some ShV else None
  | ODiv, Some ShV => Some ShS
  | ODiv, Some ShM => Some ShV
  | OLaplace, Some ShS => Some ShS
  | OLaplace, Some ShV => Some ShV
  | OHessian, Some ShS => Some ShM
  | ODn, Some ShS => Some ShS
  | (OJump | OAvg | OMinus | OPlus), Some x => Some x
  | _, _ => None
  end.
Definition shape2 (d : nat) (o : op2) (a b : option shape) : option shape :=
  match o, a, b with
  | ODot, Some ShV, Some ShV => Some ShS
  | ODot, Some ShM, Some ShV => Some ShV          (* matrix . vector *)
  | ODot, Some ShV, Some ShM => Some ShV          (* vector . matrix *)
  | OCross, Some ShV, Some ShV => match d with 2 => Some ShS | 3 => Some ShV | _ => None end
  | OInner, Some ShV, Some ShV => Some ShS
  | OInner, Some ShM, Some ShM => Some ShS
  | OOuter, Some ShV, Some ShV => Some ShM
  | OConvect, Some ShV, Some ShV => Some ShV
  | OBracket, Some ShS, Some ShS => if Nat.eqb d 2 then Some ShS else None
  | _, _, _ => None
  end.

(* None = ill-typed.  (The restriction operators may not be nested; that is a matter of [gden], not of shapes.) *)
Fixpoint gshape (d : nat) (e : gexpr) : option shape :=
  match e with
  | GNum _ _ | GConst _ | GCoord _ | GSF _ | GComp _ _ => Some ShS
  | GVF _ | GNormal => Some ShV
  | GAdd l =>
      match l with
      | [] => None
      | x :: r => fold_left (fun acc y => shape_add acc (gshape d y)) r (gshape d x)
      end
  | GMul l => fold_left (fun acc y => shape_mul acc (gshape d y)) l (Some ShS)
  | GPow b x => match gshape d b, gshape d x with Some ShS, Some ShS => Some ShS | _, _ => None end
  | GFn _ a => match gshape d a with Some ShS => Some ShS | _ => None end
  | G1 o a => shape1 d o (gshape d a)
  | G2 o a b => shape2 d o (gshape d a) (gshape d b)
  end.

Definition is_scalar (d : nat) (e : gexpr) : bool :=
  match gshape d e with Some ShS => true | _ => false end.

(* "commutative => scalar": the typing discipline the constructors rely on when they pull the commutative
   factors out of a product (violated by Laplace(F) and Div(Grad(F)), which are commutative vectors).
   Checked on the arithmetic skeleton (sums / products / powers), not inside operator applications. *)
Fixpoint cs_ok (d : nat) (e : gexpr) : bool :=
  match e with
  | GAdd l => forallb (cs_ok d) l
  | GMul l => forallb (fun x => cs_ok d x && (negb (is_comm d x) || is_scalar d x)) l
  | GPow b x => cs_ok d b && cs_ok d x && is_scalar d e        (* powers are well-typed scalars *)
  | _ => true
  end.
Definition cs_top (d : nat) (e : gexpr) : bool := cs_ok d e && (negb (is_comm d e) || is_scalar d e).

(* guard of the bilinear constructors: the commutative factors they pull out of a product are scalars;
   sums are distributed first *)
Fixpoint pull_ok (d : nat) (a : gexpr) : bool :=
  match a with
  | GAdd l => forallb (pull_ok d) l
  | GMul l => forallb (fun x => negb (is_comm d x) || is_scalar d x) l
  | _ => true
  end.
(* Inner: every summand keeps the kind (matrix / vector) [m] of the whole argument *)
Definition is_mat (d : nat) (e : gexpr) : bool := match gshape d e with Some ShM => true | _ => false end.
Fixpoint inner_flag (d : nat) (m : bool) (a : gexpr) : bool :=
  match a with
  | GAdd l => forallb (inner_flag d m) l
  | GMul l => Bool.eqb (is_mat d (gmul (filter (fun i => negb (is_comm d i)) l))) m
  | _ => Bool.eqb (is_mat d (gmul (filter (fun i => negb (is_comm d i)) [a]))) m
  end.

(* Dot: matrix . vector and vector . matrix are different products.  Dot.__new__ imposes its canonical order (by str)
   only when neither factor may be matrix-valued ([may_mat]); what the soundness theorem still needs is that the
   non-commutative part of every summand has the kind (matrix or not) of the whole argument *)
Definition shape_stable (d : nat) (a : gexpr) : bool := inner_flag d (is_mat d a) a.

(* structurally not matrix-valued (sums and products of non-matrices; the matrix-valued operators are Grad of a
   non-scalar, Hessian and Outer) *)
Fixpoint nomat (d : nat) (e : gexpr) : bool :=
  match e with
  | GAdd l | GMul l => forallb (nomat d) l
  | G1 OGrad z => is_scalar d z
  | G1 OHessian _ => false
  | G1 (OJump | OAvg | OMinus | OPlus) z => nomat d z
  | G2 OOuter _ _ => false
  | _ => true
  end.

(* sympy-canonical exponents: in a sum only the first term is a number (and it is not followed by a lone
   number / a sum starting with a number) -- what sympy's Add guarantees *)
Definition head_num (e : gexpr) : bool :=
  match e with GNum _ _ => true | GAdd (GNum _ _ :: _) => true | _ => false end.
Definition exp_canon (x : gexpr) : bool :=
  match x with
  | GAdd (GNum _ _ :: [y]) => negb (head_num y)
  | GAdd (GNum _ _ :: y :: _) => negb (match y with GNum _ _ => true | _ => false end)
  | _ => true
  end.

(* the exponents of the powers to which the recursion of Grad.eval applies its power rule are sympy-canonical
   (a side condition on the INPUT FORMAT, not on the rule: sympy's Add guarantees it) *)
Fixpoint grad_guard (d : nat) (e : gexpr) : bool :=
  if negb (has_types e) then true else
  match e with
  | GAdd l => forallb (fun x => negb (has_types x) || grad_guard d x) l
  | GMul l =>
      if existsb (fun a => negb (is_comm d a)) l then true
      else forallb (fun x => negb (negb (is_number x) && has_types x) || grad_guard d x) l
  | GPow b x => exp_canon x && grad_guard d b && (is_number x || grad_guard d x)
  | _ => true
  end.

(* a scalar factor to which the recursion applies Grad.eval *)
Definition f_ok (d : nat) (f : gexpr) : bool := is_scalar d f && cs_ok d f && grad_guard d f.

(* Div.eval: in f*F (F a VectorFunction) the other factor is a scalar admissible for Grad.eval;
   div(cross) is used in 3D and div(curl) outside 2D (typing) *)
Fixpoint div_guard (d : nat) (e : gexpr) : bool :=
  if negb (has_types e) then true else
  match e with
  | GAdd l => forallb (fun x => negb (has_types x) || div_guard d x) l
  | GMul l =>
      match filter (fun a => negb (is_number a)) l with
      | [x; y] =>
          if is_vecfun x then f_ok d y else if is_vecfun y then f_ok d x else true
      | _ => true
      end
  | G2 OCross a b => Nat.eqb d 3 && cs_ok d a && cs_ok d b && inner_flag d false a && inner_flag d false b
  | G1 OCurl _ => negb (Nat.eqb d 2)
  | _ => true
  end.

(* Laplace.eval: the two-factor product rule needs two scalar factors admissible for Grad.eval *)
Fixpoint laplace_guard (d : nat) (e : gexpr) : bool :=
  if negb (has_types e) then true else
  match e with
  | GAdd l => forallb (fun x => negb (has_types x) || laplace_guard d x) l
  | GMul l =>
      match filter (fun a => negb (is_number a)) l with
      | [f; g] => negb (is_comm d f && is_comm d g) ||
                  (f_ok d f && f_ok d g && forallb (fun x => is_number x || laplace_guard d x) l)
      | _ => true
      end
  | _ => true
  end.

(* Bracket.eval / NormalDerivative.eval apply a Leibniz rule to products: the factors must be scalars *)
Fixpoint bracket_guard (d : nat) (a : gexpr) : bool :=
  match a with
  | GAdd l => forallb (bracket_guard d) l
  | GMul l => forallb (fun x => is_scalar d x && bracket_guard d x) l
  | _ => true
  end.

(* What is left of the guard of the interface operators (nothing about products or constants any more):
   - NormalDerivative applies the Leibniz rule to products: every factor must be a scalar (typing: Dn is the
     normal derivative of a SCALAR; gsem reads entry (0,0) of the factors);
   - minus(Dn(u)) / plus(Dn(u)) -> Dot(Grad(minus(u)), minus(n)) is proved for u a scalar function only (the
     general case composes mk_iface, mk_grad and mk_bil and would need their guards on the intermediate results).
   For Jump and Average the guard is identically true ([iface_guard_jump_avg] in Proofs/ConstructorsP.v). *)
Fixpoint iface_guard (d : nat) (o : op1) (e : gexpr) : bool :=
  match e with
  | GAdd l => forallb (iface_guard d o) l
  | GMul l =>
      match o with
      | ODn => forallb (fun x => is_coeff x || (is_scalar d x && iface_guard d o x)) l
      | _ => forallb (fun x => is_coeff x || iface_guard d o x) l
      end
  | G1 ODn u => if is_side_op o then (match u with GSF _ => true | _ => false end) else true
  | _ => true
  end.

(* no NormalDerivative application among the summands / factors that the recursion of mk_iface reaches *)
Fixpoint dn_free (e : gexpr) : bool :=
  match e with
  | GAdd l | GMul l => forallb dn_free l
  | G1 ODn _ => false
  | _ => true
  end.

(* ------------------------------------------------------------------ comparison of meanings (per case, inside Coq) *)
Definition entries (t : tensor) : list texpr :=
  match t with Sc x => [x] | Vec l => l | Mat A => concat A end.
Definition all_zero_t (t : tensor) : bool := forallb (fun x => tequiv x (TZ 0)) (entries t).

(* equality of tensors modulo the field axioms; the scalar 0 equals the zero tensor of any shape *)
Definition teq (a b : tensor) : bool :=
  if tens_equiv a b then true
  else match a, b with
       | Sc x, _ => tequiv x (TZ 0) && all_zero_t b
       | _, Sc y => tequiv y (TZ 0) && all_zero_t a
       | _, _ => false
       end.

(* result codes for the case files: 0 proved equal, 1 not proved, 2 left side undefined, 3 right side undefined *)
Definition cmp (a b : option tensor) : nat :=
  match a, b with
  | Some x, Some y => if teq x y then 0 else 1
  | None, _ => 2
  | _, None => 3
  end.
