(* Executable model for C04 (integrals transform with the exact volume / surface element):

   part 1  GEOMETRY on matrices of terminal expressions: the Jacobian of a mapping given by its
           component expressions (J[i][j] = d F_i / d xhat_j, pdim x ldim), what TerminalExpr does to a
           JacobianSymbol with an axis (column [axis] deleted; eye(1) when ldim = 1), the Gram matrix
           J^T J and explicit determinants of 1x1, 2x2, 3x3 matrices; the inverse of a square Jacobian
           (cofactors / det) and the pulled-back gradient J^-T grad^ used by the references of C11 / C04.
   part 2  BOOK-KEEPING: Integral.__new__ (split over Union / multi-patch Domain; leaves on a patch, a
           boundary face, an interface) and the Integral arm of LogicalExpr.eval (body -> logical body *
           sqrt(det(Jr^T Jr)), region -> its logical twin), with the Add arm applying it to every piece.
           The transformation of the integrand itself is the C03 pull-back: a parameter here.
   part 3  sqrt / Abs atoms of an implementation output and their defining relations, for comparing
           measures through their radicands.
   No proofs in this file. *)
From Coq Require Import String ZArith List Bool Arith.
From V Require Import Core.Terminal Core.Classical.
Import ListNotations.

Definition matrix := list (list texpr).

(* ------------------------------------------------------------------------------ part 1 *)
Fixpoint unit_al (j : nat) : list nat := match j with 0 => [1] | S k => 0 :: unit_al k end.

(* the components of a symbolic Mapping m of physical dimension pdim: the atoms m[i] *)
Definition sym_map (m : string) (pdim : nat) : list texpr :=
  map (fun i => TAt (AMap m i [])) (seq0 pdim).

(* Jacobian(F)[i][j] = d F_i / d x_{j+1}   (pdim rows, ldim columns) *)
Definition jacobian (ldim : nat) (Fm : list texpr) : option matrix :=
  sequence (map (fun Fi => sequence (map (fun j => tD true j Fi) (seq0 ldim))) Fm).

Fixpoint del_nth {A} (k : nat) (l : list A) : list A :=
  match k, l with
  | _, [] => []
  | 0, _ :: r => r
  | S k', x :: r => x :: del_nth k' r
  end.

Definition col_del (axis : nat) (A : matrix) : matrix := map (del_nth axis) A.

(* TerminalExpr of JacobianSymbol(mapping, axis): axis = None on a patch *)
Definition restricted_jacobian (ldim : nat) (axis : option nat) (J : matrix) : matrix :=
  match axis with
  | None => J
  | Some a => if Nat.eqb ldim 1 then [[TZ 1]] else col_del a J          (* J.eye(1) in 1-D *)
  end.

Definition mcol (A : matrix) (j : nat) : list texpr := map (fun r => nth j r (TZ 0)) A.
Definition mncols (A : matrix) : nat := match A with [] => 0 | r :: _ => length r end.

Definition tdot (a b : list texpr) : texpr := Classical.tsum (zipmul a b).

(* A^T A : entry (j,k) = <column j, column k> *)
Definition gram (A : matrix) : matrix :=
  map (fun j => map (fun k => tdot (mcol A j) (mcol A k)) (seq0 (mncols A))) (seq0 (mncols A)).

Definition det1 (a : texpr) : texpr := a.
Definition det2 (a b c d : texpr) : texpr := TSub (TMul a d) (TMul b c).
Definition det3 (a b c d e f g h i : texpr) : texpr :=
  TAdd (TSub (TMul a (det2 e f h i)) (TMul b (det2 d f g i))) (TMul c (det2 d e g h)).

Definition det (A : matrix) : option texpr :=
  match A with
  | [[a]] => Some (det1 a)
  | [[a; b]; [c; d]] => Some (det2 a b c d)
  | [[a; b; c]; [d; e; f]; [g; h; i]] => Some (det3 a b c d e f g h i)
  | _ => None
  end.

(* the radicand of the measure: det(Jr^T Jr) *)
Definition measure_radicand (ldim : nat) (axis : option nat) (Fm : list texpr) : option texpr :=
  match jacobian ldim Fm with
  | Some J => det (gram (restricted_jacobian ldim axis J))
  | None => None
  end.

(* inverse of a square matrix, entries cofactor / det ; inv[k][i] *)
Definition inverse (A : matrix) : option matrix :=
  match A with
  | [[a]] => Some [[TDiv (TZ 1) a]]
  | [[a; b]; [c; d]] =>
      let D := det2 a b c d in
      Some [[TDiv d D; TDiv (TOpp b) D]; [TDiv (TOpp c) D; TDiv a D]]
  | [[a; b; c]; [d; e; f]; [g; h; i]] =>
      let D := det3 a b c d e f g h i in
      Some [[TDiv (det2 e f h i) D; TDiv (det2 c b i h) D; TDiv (det2 b c e f) D];
            [TDiv (det2 f d i g) D; TDiv (det2 a c g i) D; TDiv (det2 c a f d) D];
            [TDiv (det2 d e g h) D; TDiv (det2 b a h g) D; TDiv (det2 a b d e) D]]
  | _ => None
  end.

(* the pull-back of the physical gradient of a function given in logical coordinates:
   (J^-T grad^ g)_i = sum_k Jinv[k][i] * d g / d xhat_k *)
Definition pulled_grad (Jinv : matrix) (g : texpr) : option (list texpr) :=
  let n := length Jinv in
  match sequence (map (fun k => tD true k g) (seq0 n)) with
  | Some dg => Some (map (fun i => tdot (mcol Jinv i) dg) (seq0 n))
  | None => None
  end.

(* substitution of the physical symbols by their logical counterparts: x_i -> F_i(xhat),
   u -> u^ (the H1 / undefined-kind pull-back: composition with the mapping).  A bare field atom
   (empty multi-index) belongs to no family of derivations: the serialiser writes it with lg = false
   and [tD true] differentiates it into the logical family, so it is kept as it is. *)
Fixpoint to_logical (Fm : list texpr) (t : texpr) : option texpr :=
  match t with
  | TZ _ | TQ _ _ => Some t
  | TAt (ACoord false i) => nth_error Fm i
  | TAt (AFld false f c s al) => if all_zero al then Some (TAt (AFld false f c s [])) else None
  | TAt (AConst _) => Some t
  | TAt _ => None
  | TAdd a b => Terminal.omap2 TAdd (to_logical Fm a) (to_logical Fm b)
  | TSub a b => Terminal.omap2 TSub (to_logical Fm a) (to_logical Fm b)
  | TMul a b => Terminal.omap2 TMul (to_logical Fm a) (to_logical Fm b)
  | TDiv a b => Terminal.omap2 TDiv (to_logical Fm a) (to_logical Fm b)
  | TOpp a => option_map TOpp (to_logical Fm a)
  | TInv a => option_map TInv (to_logical Fm a)
  | TPowN a n => option_map (fun x => TPowN x n) (to_logical Fm a)
  | TFn f a => option_map (TFn f) (to_logical Fm a)
  | TPowG b e => Terminal.omap2 TPowG (to_logical Fm b) (to_logical Fm e)
  end.

(* ------------------------------------------------------------------------------ part 2 *)
Record patch := mkPatch {
  p_name : string;        (* name of the mapped patch, e.g. "M1(A)" *)
  p_logical : string;     (* its logical twin, e.g. "A" *)
  p_mapping : string;     (* the patch's own mapping *)
  p_ldim : nat
}.

Record face := mkFace { f_patch : patch; f_axis : nat; f_ext : Z }.

(* the second argument of Integral *)
Inductive region :=
| RNone                                       (* domain is None *)
| RInterior (p : patch)                       (* InteriorDomain / NCubeInterior *)
| RBoundary (f : face)
| RInterface (minus plus : face)
| RUnion (l : list region)
| RDomain (interiors : list patch).           (* Domain: interior = one patch or a Union of patches *)

Inductive leaf :=
| LInterior (p : patch) | LBoundary (f : face) | LInterface (minus plus : face).

(* Integral.__new__ : IntAdd of one Integral per member; nothing when expr == 0 *)
Section Book.
  Variable body : Type.
  Variable is_zero_body : body -> bool.
  (* the C03 pull-back of an integrand with a given mapping ("M" or, on an interface, "M1|M2") *)
  Variable pull : string -> body -> body.

  Fixpoint integral_leaves (b : body) (r : region) {struct r} : list (body * leaf) :=
    if is_zero_body b then [] else
    match r with
    | RNone => []
    | RInterior p => [(b, LInterior p)]
    | RBoundary f => [(b, LBoundary f)]
    | RInterface m p => [(b, LInterface m p)]
    | RDomain ps => map (fun p => (b, LInterior p)) ps
    | RUnion l =>
        (fix go (l : list region) : list (body * leaf) :=
           match l with [] => [] | x :: rest => integral_leaves b x ++ go rest end) l
    end.

  (* which Jacobian the measure is built from *)
  Inductive jac_of :=
  | JPatch (mapping : string)                     (* mapping.jacobian *)
  | JFace (mapping : string) (axis : nat)         (* JacobianSymbol(mapping, axis) *)
  | JIface (minus plus : string) (axis : nat).    (* JacobianSymbol(InterfaceMapping(minus, plus), axis) *)

  Inductive lregion :=
  | LgInterior (name : string)
  | LgBoundary (name : string) (axis : nat) (ext : Z)
  | LgInterface (mname : string) (maxis : nat) (mext : Z) (pname : string) (paxis : nat) (pext : Z).

  Record lintegral := mkLI { li_body : body; li_jac : jac_of; li_region : lregion }.

  Definition iface_mapping (m p : face) : string :=
    (p_mapping (f_patch m) ++ "|" ++ p_mapping (f_patch p))%string.

  (* LogicalExpr.eval, Integral arm *)
  Definition logical_leaf (bl : body * leaf) : lintegral :=
    let (b, l) := bl in
    match l with
    | LInterior p =>
        mkLI (pull (p_mapping p) b) (JPatch (p_mapping p)) (LgInterior (p_logical p))
    | LBoundary f =>
        let p := f_patch f in
        mkLI (pull (p_mapping p) b) (JFace (p_mapping p) (f_axis f)) (LgBoundary (p_logical p) (f_axis f) (f_ext f))
    | LInterface m p =>
        (* domain.axis of an Interface is plus.axis; Interface.__new__ asserts minus.axis = plus.axis *)
        mkLI (pull (iface_mapping m p) b)
             (JIface (p_mapping (f_patch m)) (p_mapping (f_patch p)) (f_axis p))
             (LgInterface (p_logical (f_patch m)) (f_axis m) (f_ext m) (p_logical (f_patch p)) (f_axis p) (f_ext p))
    end.

  (* LogicalExpr of Integral(b, r): the Add arm maps the Integral arm over the pieces *)
  Definition logical_integral (b : body) (r : region) : list lintegral :=
    map logical_leaf (integral_leaves b r).
End Book.

Arguments mkLI {body}. Arguments li_body {body}. Arguments li_jac {body}. Arguments li_region {body}.
Arguments JPatch. Arguments JFace. Arguments JIface.

(* which mapping and which axis the lowered measure finally uses.  On an interface the determinant of
   the cross terms (u-, v+), (u+, v-) and of the minus-side piece is rewritten with the MINUS mapping;
   the plus-side piece (u+, v+), which becomes a boundary expression on the plus face, with the PLUS one
   (_split_expr_over_interface) *)
Inductive iside := ICross | IMinus | IPlus.
Definition measure_of (j : jac_of) (s : iside) : string * option nat :=
  match j with
  | JPatch m => (m, None)
  | JFace m a => (m, Some a)
  | JIface mm mp a => ((match s with IPlus => mp | _ => mm end), Some a)
  end.

(* ------------------------------------------------------------------------------ part 3 *)
Definition is_half (e : texpr) : bool :=
  match e with TQ 1 2 => true | _ => false end.

(* every sqrt(r) = r^(1/2) and Abs(a) sub-term with its defining relation  atom^2 = r  /  atom^2 = a^2 *)
Fixpoint root_hyps (t : texpr) : list (texpr * texpr) :=
  match t with
  | TZ _ | TQ _ _ | TAt _ => []
  | TAdd a b | TSub a b | TMul a b | TDiv a b => root_hyps a ++ root_hyps b
  | TOpp a | TInv a | TPowN a _ => root_hyps a
  | TFn Fabs a => (TPowN t 2, TMul a a) :: root_hyps a
  | TFn Fsqrt a => (TPowN t 2, a) :: root_hyps a
  | TFn _ a => root_hyps a
  | TPowG b e => if is_half e then (TPowN t 2, b) :: root_hyps b else root_hyps b ++ root_hyps e
  end.

(* sin(a)^2 = 1 - cos(a)^2 for every sin(a) occurring in t (catalogue mappings) *)
Fixpoint trig_hyps (t : texpr) : list (texpr * texpr) :=
  match t with
  | TZ _ | TQ _ _ | TAt _ => []
  | TAdd a b | TSub a b | TMul a b | TDiv a b | TPowG a b => trig_hyps a ++ trig_hyps b
  | TOpp a | TInv a | TPowN a _ => trig_hyps a
  | TFn Fsin a => (TPowN t 2, TSub (TZ 1) (TPowN (TFn Fcos a) 2)) :: trig_hyps a
  | TFn _ a => trig_hyps a
  end.

(* function atoms whose arguments are equal modulo the field axioms but not syntactically (sympy distributes
   numeric factors over sums inside arguments, and uses the parity of sin / cos to fix the sign of an argument):
   the relation  f(x) = f(y)  resp.  cos(x) = cos(y), sin(x) = - sin(y)  when x = -y , proposed only when the
   verified checker proves  x = y  resp.  x = -y *)
Fixpoint fn_atoms (t : texpr) : list (fname * texpr) :=
  match t with
  | TZ _ | TQ _ _ | TAt _ => []
  | TAdd a b | TSub a b | TMul a b | TDiv a b | TPowG a b => fn_atoms a ++ fn_atoms b
  | TOpp a | TInv a | TPowN a _ => fn_atoms a
  | TFn f a => (f, a) :: fn_atoms a
  end.

Definition fn_rel (f : fname) (x y : texpr) : list (texpr * texpr) :=
  if texpr_eqb x y then [] else
  if tequiv x y then [(TFn f x, TFn f y)] else
  match f with
  | Fcos | Fabs => if tequiv x (TOpp y) then [(TFn f x, TFn f y)] else []
  | Fsin | Ftan => if tequiv x (TOpp y) then [(TFn f x, TOpp (TFn f y))] else []
  | _ => []
  end.

(* rewrite the function atoms of [a] into those of [b] *)
Definition fn_hyps (a b : texpr) : list (texpr * texpr) :=
  flat_map (fun fx => flat_map (fun gy => if fname_eqb (fst fx) (fst gy) then fn_rel (fst fx) (snd fx) (snd gy) else [])
                               (fn_atoms b)) (fn_atoms a).

(* keep one copy of each relation *)
Fixpoint dedup_hyps (l : list (texpr * texpr)) : list (texpr * texpr) :=
  match l with
  | [] => []
  | h :: r => if existsb (fun g => texpr_eqb (fst g) (fst h)) r then dedup_hyps r else h :: dedup_hyps r
  end.

(* a = b decided modulo the field axioms and the relations of the square roots occurring in a, b *)
Definition tequiv_roots (extra : list (texpr * texpr)) (a b : texpr) : bool :=
  tequiv_hyps (dedup_hyps (fn_hyps a b ++ root_hyps a ++ root_hyps b ++ extra)) a b.

(* m is a measure with radicand r:  m^2 = r  modulo the relations of its own roots *)
Definition measure_sq_ok (extra : list (texpr * texpr)) (m r : texpr) : bool :=
  tequiv_roots extra (TMul m m) r.
