(* Executable model of sympde.topology.derivatives.DifferentialOperator.eval on
   scalar arguments (C05), arm for arm.  dx,dy,dz = (lg:=false, i:=0,1,2);
   dx1,dx2,dx3 = (lg:=true, i:=0,1,2).  None = the operator refuses / is not modelled.
   No proofs here. *)
From Coq Require Import String ZArith List Bool Arith.
From V Require Import Core.Terminal Core.SExpr.
Import ListNotations.

(* sympy.diff (with the chain rule through mapping components for logical operators)
   on function-free expressions: modelled by the reference derivative [tD]. *)
Definition sdiff (lg : bool) (i : nat) (e : sx) : option sx :=
  option_map (fun t => ssimp (t2s t)) (tD lg i (sx2t e)).

(* arms 1-4: derivative chains over an atom are kept as (canonically ordered) atoms *)
Definition dop_atom (lg : bool) (i : nat) (a : atom) : option sx :=
  match a with
  | AFld l f c s al =>
      if all_zero al || Bool.eqb l lg then Some (SAt (AFld lg f c s (bump i al)))
      else None                       (* mixed physical/logical chain: not modelled *)
  | AMap m j al => if lg then Some (SAt (AMap m j (bump i al))) else None
  | ACoord l j => if Bool.eqb l lg then Some (if Nat.eqb i j && Nat.ltb j 3 then sZ 1 else sZ 0) else None
  | AConst _ => Some (sZ 0)
  | ANormal _ _ => None
  end.

Fixpoint dop (lg : bool) (i : nat) (e : sx) {struct e} : option sx :=
  match e with
  | SNum _ _ => Some (sZ 0)
  | SAt a => dop_atom lg i a
  | SAdd l =>
      if negb (has_field e) then (if is_number e then Some (sZ 0) else sdiff lg i e) else
      option_map sadd
        ((fix go (l : list sx) : option (list sx) :=
            match l with
            | [] => Some []
            | x :: r => match dop lg i x, go r with
                        | Some dx, Some dr => Some (dx :: dr)
                        | _, _ => None
                        end
            end) l)
  | SMul l =>
      if negb (has_field e) then (if is_number e then Some (sZ 0) else sdiff lg i e) else
      let coeffs := filter is_coeff l in
      (* Leibniz over the non-coefficient factors: Some None = no such factor,
         Some (Some (p, dp)) = their product and its derivative *)
      match (fix go (l : list sx) : option (option (sx * sx)) :=
               match l with
               | [] => Some None
               | x :: r =>
                   if is_coeff x then go r else
                   match dop lg i x, go r with
                   | Some dx, Some None => Some (Some (x, dx))
                   | Some dx, Some (Some (pr, dpr)) =>
                       Some (Some (SMul [x; pr], sadd [smul [x; dpr]; smul [dx; pr]]))
                   | _, _ => None
                   end
               end) l with
      | Some (Some (_, dV)) => Some (smul [smul coeffs; dV])
      | Some None => Some (sZ 0)
      | None => None
      end
  | SPow b x =>
      if negb (has_field e) then (if is_number e then Some (sZ 0) else sdiff lg i e) else
      match dop lg i b, dop lg i x with
      | Some db, Some dx =>
          Some (smul [sadd [smul [SFn Flog b; dx]; smul [x; db; SPow b (sZ (-1))]]; SPow b x])
      | _, _ => None
      end
  | SFn _ _ =>
      if negb (has_field e) then (if is_number e then Some (sZ 0) else sdiff lg i e) else None
  end.

(* repeated application, outermost operator first in the list *)
Fixpoint dops (ops : list (bool * nat)) (e : sx) : option sx :=
  match ops with
  | [] => Some e
  | (lg, i) :: r => match dops r e with Some e' => dop lg i e' | None => None end
  end.
