(* Executable model of sympde.exterior (C19): the values that the real classes build
   (sympy Add / Mul canonical forms over differential-form atoms and unevaluated
   operator nodes), the four `eval` classmethods arm for arm, `infere_type`, and the
   semantics of these values in a graded module.  NO proofs in this file.

   Sources modelled (sympde/exterior):
     calculus.py   ExteriorDerivative.eval          -> mk_d
                   AdjointExteriorDerivative.eval   -> mk_delta
                   Hodge.eval                       -> mk_hodge
                   ExteriorProduct.eval             -> mk_wedge
     inference.py  infere_type, _get_dim            -> infer, first_dim
     datatype.py   get_index_form / dtype_registry  -> gif  (degrees 0..6 only)
   and, from sympy 1.9, the automatic canonicalisation performed by Add(...) and
   Mul(...) on the fragment that these functions can produce (sadd, scale). *)
From Coq Require Import String List Bool Arith PeanoNat ZArith QArith.
Import ListNotations.
Open Scope Q_scope.

(* ------------------------------------------------------------------ values *)
(* A monomial in the symbolic constants: a1^k1 * a2^k2 * ... (names pairwise distinct,
   exponents >= 1).  A sympde `Constant` a is [(a,1)]; sympy writes a*a as Pow(a,2). *)
Definition mono := list (string * nat).

(* A sympy expression of the fragment, modulo the order of Add / Mul arguments.
   `Cst q m`   : the commutative product  q * a1^k1 * ...  with no form factor
                 (Cst q [] is the number q; Cst 1 [(a,1)] the Constant a; Cst 1 [(a,2)] the Pow a**2);
   `Mul q m v` : the sympy Mul with args  [q if q<>1] ++ [ai^ki ...] ++ [v], v the only factor
                 that is neither a number, a Constant nor a power of a Constant;
   `Add ts`    : the sympy Add with args ts;
   `D / Delta / Hodge / Wedge` : unevaluated operator objects (Basic.__new__(cls, args)). *)
Inductive expr :=
| Form (name : string) (k n : nat)       (* DifferentialForm(name, index=k, dim=n) *)
| D (e : expr)
| Delta (e : expr)
| Hodge (e : expr)
| Wedge (a b : expr)
| Add (ts : list expr)
| Cst (q : Q) (m : mono)
| Mul (q : Q) (m : mono) (v : expr).

Definition zero : expr := Cst 0 [].
Definition one : expr := Cst 1 [].

Definition is_zero (q : Q) : bool := Qeq_bool q 0.
Definition is_one (q : Q) : bool := Qeq_bool q 1.

(* ------------------------------------------------------------------ monomials *)
Fixpoint minsert (a : string) (k : nat) (m : mono) : mono :=
  match m with
  | [] => [(a, k)]
  | (b, j) :: r => if String.eqb a b then (b, j + k)%nat :: r else (b, j) :: minsert a k r
  end.
(* product of two monomials: same base -> exponents add (Mul.flatten's c_powers) *)
Definition mmul (m1 m2 : mono) : mono :=
  fold_left (fun acc p => minsert (fst p) (snd p) acc) m2 m1.

(* factors that pass `isinstance(a, _coeffs_registery)` : the Constants themselves (exponent 1);
   a Pow of a Constant is NOT in the registry *)
Definition m_lin (m : mono) : mono := filter (fun p => Nat.eqb (snd p) 1) m.
Definition m_pow (m : mono) : mono := filter (fun p => negb (Nat.eqb (snd p) 1)) m.

(* generic "is a permutation of" test driven by a boolean equivalence *)
Fixpoint remove_first {A} (f : A -> bool) (l : list A) : option (list A) :=
  match l with
  | [] => None
  | x :: r => if f x then Some r else
              match remove_first f r with Some r' => Some (x :: r') | None => None end
  end.

Definition pair_eqb (p q : string * nat) : bool :=
  String.eqb (fst p) (fst q) && Nat.eqb (snd p) (snd q).
Fixpoint mono_eqv (m1 m2 : mono) : bool :=
  match m1 with
  | [] => match m2 with [] => true | _ => false end
  | p :: r => match remove_first (pair_eqb p) m2 with
              | Some m2' => mono_eqv r m2'
              | None => false
              end
  end.

(* ------------------------------------------------------------------ sympy's == *)
(* [eqv strict]: equality of sympy expressions modulo the order of Add arguments and of
   monomial factors.  strict = false is sympy's own ==, which identifies two
   DifferentialForms as soon as their NAMES agree (Symbol._hashable_content ignores index
   and dim); strict = true also compares degree and dimension and is what the case files
   use to compare the model's result with the implementation's. *)
Fixpoint eqv (strict : bool) (e1 e2 : expr) {struct e1} : bool :=
  match e1, e2 with
  | Form s k n, Form s' k' n' =>
      String.eqb s s' && (negb strict || (Nat.eqb k k' && Nat.eqb n n'))
  | D a, D b => eqv strict a b
  | Delta a, Delta b => eqv strict a b
  | Hodge a, Hodge b => eqv strict a b
  | Wedge a b, Wedge a' b' => eqv strict a a' && eqv strict b b'
  | Add ts, Add ts' =>
      (fix go (l : list expr) (l' : list expr) {struct l} : bool :=
         match l with
         | [] => match l' with [] => true | _ => false end
         | t :: r => match remove_first (eqv strict t) l' with
                     | Some l'' => go r l''
                     | None => false
                     end
         end) ts ts'
  | Cst q m, Cst q' m' => Qeq_bool q q' && mono_eqv m m'
  | Mul q m v, Mul q' m' v' => Qeq_bool q q' && mono_eqv m m' && eqv strict v v'
  | _, _ => false
  end.

(* ------------------------------------------------------------------ sympy predicates *)
(* number of sympy args of the commutative product q * m *)
Definition cst_nargs (q : Q) (m : mono) : nat := ((if is_one q then 0 else 1) + length m)%nat.

(* isinstance(x, _coeffs_registery) for x = Cst q m : a Number, or a single Constant *)
Definition is_coeff_cst (q : Q) (m : mono) : bool :=
  match m with
  | [] => true
  | [(_, k)] => is_one q && Nat.eqb k 1
  | _ => false
  end.
(* isinstance(x, Mul) for x = Cst q m *)
Definition is_mul_cst (q : Q) (m : mono) : bool :=
  match m with [] => false | _ => Nat.leb 2 (cst_nargs q m) end.

(* expr.is_commutative.  DifferentialForm builds itself with Basic.__new__ and never
   receives Symbol's assumptions: is_commutative is None, which Add / Mul treat as
   "not commutative"; the operator classes declare is_commutative = True. *)
Fixpoint is_comm (e : expr) : bool :=
  match e with
  | Form _ _ _ => false
  | D _ | Delta _ | Hodge _ | Wedge _ _ => true
  | Add ts => (fix all (l : list expr) : bool :=
                 match l with [] => true | t :: r => is_comm t && all r end) ts
  | Cst _ _ => true
  | Mul _ _ v => is_comm v
  end.

(* ------------------------------------------------------------------ Mul(...) *)
Definition mkcst (q : Q) (m : mono) : expr := if is_zero q then zero else Cst q m.

(* _keep_coeff(q, t) for a term t of a commutative Add, q a non-zero number *)
Definition scale_term (q : Q) (t : expr) : expr :=
  match t with
  | Cst q' m' => mkcst (Qred (q * q')) m'
  | Mul q' m' v =>
      let q2 := Qred (q * q') in
      match m' with
      | [] => if is_one q2 then v else Mul q2 [] v
      | _ => Mul q2 m' v
      end
  | _ => Mul q [] t
  end.

(* Mul(q, m.., v) for a factor v that is not itself a product *)
Definition mkmul (q : Q) (m : mono) (v : expr) : expr :=
  if is_zero q then zero else
  match m with
  | [] =>
      if is_one q then v else
      match v with
      | Add ts => if is_comm v then Add (map (scale_term q) ts)   (* 2*(x+y) -> 2*x + 2*y *)
                  else Mul q [] v                                   (* sum of forms: not distributed *)
      | _ => Mul q [] v
      end
  | _ => Mul q m v
  end.

(* Mul(c, e) for a product of constants c = q * m *)
Definition scale (c : Q * mono) (e : expr) : expr :=
  let (q, m) := c in
  match e with
  | Cst q' m' => mkcst (Qred (q * q')) (mmul m m')
  | Mul q' m' v => mkmul (Qred (q * q')) (mmul m m') v
  | _ => mkmul (Qred q) m e
  end.

Definition cmul (c1 c2 : Q * mono) : Q * mono :=
  (Qred (fst c1 * fst c2), mmul (snd c1) (snd c2)).

(* ------------------------------------------------------------------ Add(...) *)
(* as_coeff_Mul : numeric coefficient and the rest *)
Definition term_split (t : expr) : Q * expr :=
  match t with
  | Cst q m => (q, Cst 1 m)
  | Mul q m v => (q, match m with [] => v | _ => Mul 1 m v end)
  | _ => (1, t)
  end.

(* c*s at the end of Add.flatten *)
Definition term_build (q : Q) (key : expr) : expr :=
  if is_one q then key else
  match key with
  | Cst q' m => Cst (Qred (q * q')) m          (* keys carry the coefficient 1 *)
  | Mul q' m v => Mul (Qred (q * q')) m v
  | _ => Mul q [] key
  end.

Fixpoint flat_add (t : expr) : list expr :=
  match t with
  | Add ts => (fix go (l : list expr) : list expr :=
                 match l with [] => [] | x :: r => flat_add x ++ go r end) ts
  | _ => [t]
  end.

Fixpoint collect (q : Q) (key : expr) (acc : list (Q * expr)) : list (Q * expr) :=
  match acc with
  | [] => [(q, key)]
  | (q', key') :: r =>
      if eqv false key key' then (Qred (q' + q), key') :: r
      else (q', key') :: collect q key r
  end.

Definition collect_all (l : list expr) : list (Q * expr) :=
  fold_left (fun acc t => let (q, key) := term_split t in collect q key acc) l [].

Definition rebuild (l : list (Q * expr)) : list expr :=
  map (fun p => term_build (fst p) (snd p)) (filter (fun p => negb (is_zero (fst p))) l).

Definition pack_add (ts : list expr) : expr :=
  match ts with [] => zero | [t] => t | _ => Add ts end.

(* Add( *args ) *)
Definition sadd (args : list expr) : expr :=
  pack_add (rebuild (collect_all (flat_map flat_add args))).

(* ------------------------------------------------------------------ the four eval classmethods *)
Definition sign_q (e : nat) : Q := if Nat.even e then 1 else (-1 # 1).

(* the `elif isinstance(expr, Mul)` arm shared by d, delta and hodge, for expr = Cst q m:
   coeffs = numbers and Constants, vectors = the Pow factors;
   a = Mul( *coeffs ); b = cls(Mul( *vectors ), evaluate=False) if vectors else 1; Mul(a, b) *)
Definition mul_arm_cst (op : expr -> expr) (q : Q) (m : mono) : expr :=
  match m_pow m with
  | [] => scale (q, m_lin m) one
  | p => scale (q, m_lin m) (op (Cst 1 p))
  end.
Definition nonnil {A} (l : list A) : bool := match l with [] => false | _ => true end.
(* `if coeffs:` for expr = Mul q m v : a number other than 1, or a Constant, among the args *)
Definition has_coeffs (q : Q) (m : mono) : bool := negb (is_one q) || nonnil (m_lin m).
(* the same arm for expr = Mul q m v : vectors = Pow factors and v, never empty.
   Since 93cc443: `b = cls(Mul( *vectors ))` (evaluated) when a coefficient was pulled out,
   `cls(Mul( *vectors ), evaluate=False)` otherwise.  [ev] is the evaluated cls(v).  When a Pow
   factor remains, Mul( *vectors ) is a product without coefficient and both variants give the
   same unevaluated node. *)
Definition mul_arm (op : expr -> expr) (ev : expr) (q : Q) (m : mono) (v : expr) : expr :=
  match m_pow m with
  | [] => scale (q, m_lin m) (if has_coeffs q m then ev else op v)
  | p => scale (q, m_lin m) (op (scale (1, p) v))
  end.

(* ExteriorDerivative.eval *)
Fixpoint mk_d (e : expr) : expr :=
  match e with
  | D _ => zero                                           (* isinstance(expr, ExteriorDerivative) *)
  | Cst q m =>
      if is_coeff_cst q m then zero                        (* isinstance(expr, _coeffs_registery) *)
      else if is_mul_cst q m then mul_arm_cst D q m        (* Mul of constants only *)
      else D e                                             (* a single Pow: default arm *)
  | Form _ k n => if Nat.eqb k n then zero else D e        (* index == dim *)
  | Add ts => sadd (map mk_d ts)
  | Mul q m v => mul_arm D (mk_d v) q m v
  | _ => D e
  end.

(* AdjointExteriorDerivative.eval *)
Fixpoint mk_delta (e : expr) : expr :=
  match e with
  | Delta _ => zero
  | Cst q m =>
      if is_coeff_cst q m then zero
      else if is_mul_cst q m then mul_arm_cst Delta q m
      else Delta e
  | Form _ k n => if Nat.eqb k 0 then zero else Delta e    (* index == 0 *)
  | Add ts => sadd (map mk_delta ts)
  | Mul q m v => mul_arm Delta (mk_delta v) q m v
  | _ => Delta e
  end.

(* Hodge.eval *)
Fixpoint mk_hodge (e : expr) : expr :=
  match e with
  | Hodge (Form s k n) => scale (sign_q (k * (n - k)), []) (Form s k n)   (* c*arg *)
  | Cst q m =>
      if is_coeff_cst q m then zero
      else if is_mul_cst q m then mul_arm_cst Hodge q m
      else Hodge e
  | Add ts => sadd (map mk_hodge ts)
  | Mul q m v => mul_arm Hodge (mk_hodge v) q m v
  | _ => Hodge e                                           (* includes hodge(hodge(non-atom)) *)
  end.

(* ExteriorProduct.eval: the part after both Add arms.  A Mul argument is replaced by the
   product of its non-coefficient factors (1 when there is none). *)
Definition split_coeff (e : expr) : (Q * mono) * expr :=
  match e with
  | Mul q m v => ((q, m_lin m), scale (1, m_pow m) v)
  | Cst q m =>
      if is_mul_cst q m then
        ((q, m_lin m), match m_pow m with [] => one | p => Cst 1 p end)
      else ((1, []), e)
  | _ => ((1, []), e)
  end.
(* `x == 0` for a value of the fragment *)
Definition eq0 (e : expr) : bool := match e with Cst q _ => is_zero q | _ => false end.
(* `extracted = extracted or bool(coeffs)` (since 1a620f5): the operand is a Mul among whose
   args there is a number or a Constant *)
Definition extracted (e : expr) : bool :=
  match e with
  | Mul q m _ => has_coeffs q m
  | Cst q m => is_mul_cst q m && has_coeffs q m
  | _ => false
  end.

Fixpoint esize (e : expr) : nat :=
  match e with
  | Form _ _ _ => 1%nat
  | D a | Delta a | Hodge a => S (esize a)
  | Wedge a b => S (esize a + esize b)%nat
  | Add ts => S ((fix go (l : list expr) : nat := match l with [] => O | t :: r => (esize t + go r)%nat end) ts)
  | Cst _ _ => 1%nat
  | Mul _ _ v => S (esize v)
  end.

(* ExteriorProduct.eval (since 757e1d0 / 93cc443):
     if left == 0 or right == 0: return 0
     if isinstance(left, Add): distribute        if isinstance(right, Add): distribute
     pull the coefficients of both operands into alpha; left, right := the remaining factors
     if extracted: return alpha*cls(left, right)       (evaluated again whenever a coefficient was pulled out)
     return cls(left, right, evaluate=False)
   The re-entry is not structural (left may become a product without coefficient), so the
   recursion is driven by a counter; [mk_wedge] supplies more than the depth that can be
   reached, and the out-of-fuel answer is the unevaluated product (never produced by mk_wedge
   on the generated inputs: the correspondence run compares every value). *)
(* the part after both Add arms; [rec] is the evaluating constructor cls(left, right) *)
Definition wedge_core (rec : expr -> expr -> expr) (l r : expr) : expr :=
  let (a, l') := split_coeff l in
  let (b, r') := split_coeff r in
  let alpha := cmul a b in
  if (extracted l || extracted r)%bool then scale alpha (rec l' r') else Wedge l' r'.

Fixpoint wedge_fuel (n : nat) (l r : expr) : expr :=
  match n with
  | O => Wedge l r
  | S n' =>
      if (eq0 l || eq0 r)%bool then zero else
      match l with
      | Add ls => sadd (map (fun i => wedge_fuel n' i r) ls)
      | _ =>
          match r with
          | Add rs => sadd (map (fun i => wedge_fuel n' l i) rs)
          | _ => wedge_core (wedge_fuel n') l r
          end
      end
  end.
Definition mk_wedge (l r : expr) : expr := wedge_fuel (2 * (esize l + esize r) + 4)%nat l r.

(* ------------------------------------------------------------------ infere_type *)
Inductive ires :=
| IOk (k : nat)      (* the FormType of index k *)
| INone              (* the function returns None *)
| IErrValue          (* ValueError *)
| IErrAttr.          (* AttributeError: `.index` of None *)

(* get_index_form(int): only 0..6 are registered *)
Definition gif (z : Z) : ires :=
  if (Z.leb 0 z && Z.leb z 6)%bool then IOk (Z.to_nat z) else IErrValue.

(* _get_dim: dim of (the first) DifferentialForm atom *)
Fixpoint first_dim (e : expr) : option nat :=
  match e with
  | Form _ _ n => Some n
  | D a | Delta a | Hodge a => first_dim a
  | Wedge a b => match first_dim a with Some n => Some n | None => first_dim b end
  | Add ts => (fix go (l : list expr) : option nat :=
                 match l with [] => None
                 | t :: r => match first_dim t with Some n => Some n | None => go r end end) ts
  | Cst _ _ => None
  | Mul _ _ v => first_dim v
  end.

Definition ires_eqb (a b : ires) : bool :=
  match a, b with
  | IOk k, IOk l => Nat.eqb k l
  | INone, INone => true
  | IErrValue, IErrValue => true
  | IErrAttr, IErrAttr => true
  | _, _ => false
  end.
Definition is_ierr (a : ires) : bool :=
  match a with IErrValue | IErrAttr => true | _ => false end.

(* the Add arm: `indices = set([infere_type(i) for i in expr.args])`: every call runs, in the order
   of the args, so the first one that raises decides; then the set must be a singleton *)
Definition add_res (rs : list ires) : ires :=
  match find is_ierr rs with
  | Some e => e
  | None => match rs with
            | [] => IErrValue
            | r0 :: rest => if forallb (ires_eqb r0) rest then r0 else IErrValue
            end
  end.

Fixpoint infer (e : expr) : ires :=
  match e with
  | Form _ k _ => IOk k
  | D a => match infer a with
           | IOk k => gif (Z.of_nat k + 1)
           | INone => IErrAttr
           | err => err
           end
  | Delta a => match infer a with
               | IOk k => gif (Z.of_nat k - 1)
               | INone => IErrAttr
               | err => err
               end
  | Wedge a b =>
      let ra := infer a in
      if is_ierr ra then ra else
      let rb := infer b in
      if is_ierr rb then rb else
      match ra, rb with
      | IOk k, IOk l => gif (Z.of_nat k + Z.of_nat l)
      | _, _ => IErrAttr
      end
  | Hodge a =>
      let ra := infer a in
      if is_ierr ra then ra else
      match first_dim a with
      | None => IErrValue                    (* 'Cannot compute dim' *)
      | Some n => match ra with
                  | IOk k => gif (Z.of_nat n - Z.of_nat k)
                  | _ => IErrAttr
                  end
      end
  | Add ts => add_res (map infer ts)
  | Cst _ _ => INone
  | Mul _ m v =>                      (* since c3f9f51: len(vectors) == 1 -> infere_type(vectors[0]) *)
      match m_pow m with [] => infer v | _ => INone end
  end.

(* ------------------------------------------------------------------ user-level programs *)
(* The quantifier domain of C19: what a user writes with *, +, d, delta, hodge, wedge.
   TConst (a bare constant used as an operand) is outside the property's grammar; it is kept
   for the stream that exercises the `isinstance(expr, _coeffs_registery)` arms. *)
Inductive coef := CNum (q : Q) | CSym (a : string).
Definition coef_c (c : coef) : Q * mono :=
  match c with CNum q => (Qred q, []) | CSym a => (1, [(a, 1%nat)]) end.

Inductive tree :=
| TForm (name : string) (k n : nat)
| TConst (c : coef)
| TScale (c : coef) (t : tree)         (* c * t *)
| TSum (ts : list tree)                (* t1 + t2 + ... (left to right) *)
| TD (t : tree)
| TDelta (t : tree)
| THodge (t : tree)
| TWedge (a b : tree).

Fixpoint eval (t : tree) : expr :=
  match t with
  | TForm s k n => Form s k n
  | TConst c => scale (coef_c c) one
  | TScale c t => scale (coef_c c) (eval t)
  | TSum ts =>
      match ts with
      | [] => zero
      | t0 :: r =>
          (fix go (l : list tree) (acc : expr) : expr :=
             match l with [] => acc | t :: r => go r (sadd [acc; eval t]) end) r (eval t0)
      end
  | TD t => mk_d (eval t)
  | TDelta t => mk_delta (eval t)
  | THodge t => mk_hodge (eval t)
  | TWedge a b => mk_wedge (eval a) (eval b)
  end.

(* the degree of a program by the classical rules (the specification of infere_type) *)
Definition opt_nat_eqb (a b : option nat) : bool :=
  match a, b with Some x, Some y => Nat.eqb x y | _, _ => false end.
Fixpoint tdeg (n : nat) (t : tree) : option nat :=
  match t with
  | TForm _ k _ => Some k
  | TConst _ => Some 0%nat
  | TScale _ t => tdeg n t
  | TSum ts => match map (tdeg n) ts with
               | [] => None
               | r0 :: rest => if forallb (opt_nat_eqb r0) rest then r0 else None
               end
  | TD t => match tdeg n t with Some k => Some (S k) | None => None end
  | TDelta t => match tdeg n t with Some (S k) => Some k | _ => None end
  | THodge t => match tdeg n t with Some k => if Nat.leb k n then Some (n - k)%nat else None | None => None end
  | TWedge a b => match tdeg n a, tdeg n b with Some k, Some l => Some (k + l)%nat | _, _ => None end
  end.

(* ------------------------------------------------------------------ raw sympy trees *)
(* What the runner serialises: the implementation's result exactly as sympy stores it
   (args in sympy's order).  [norm] maps it to [expr], failing closed on anything that is
   not a canonical value of the fragment. *)
Inductive rexpr :=
| RNum (q : Q)
| RSym (a : string)
| RPow (a : string) (k : nat)
| RForm (name : string) (k n : nat)
| ROp1 (op : nat) (a : rexpr)          (* 0 = d, 1 = delta, 2 = hodge *)
| RWedge (a b : rexpr)
| RAdd (args : list rexpr)
| RMul (args : list rexpr).

Definition is_prod (e : expr) : bool := match e with Cst _ _ | Mul _ _ _ => true | _ => false end.

Fixpoint norm (r : rexpr) : option expr :=
  match r with
  | RNum q => Some (Cst (Qred q) [])
  | RSym a => Some (Cst 1 [(a, 1%nat)])
  | RPow a k => if Nat.leb 2 k then Some (Cst 1 [(a, k)]) else None
  | RForm s k n => Some (Form s k n)
  | ROp1 op a =>
      match norm a with
      | Some e => match op with
                  | 0%nat => Some (D e) | 1%nat => Some (Delta e) | 2%nat => Some (Hodge e)
                  | _ => None end
      | None => None
      end
  | RWedge a b =>
      match norm a, norm b with Some x, Some y => Some (Wedge x y) | _, _ => None end
  | RAdd args =>
      match args with
      | _ :: _ :: _ =>
          (fix go (l : list rexpr) (acc : list expr) : option expr :=
             match l with
             | [] => Some (Add (rev acc))
             | x :: r => match norm x with Some e => go r (e :: acc) | None => None end
             end) args []
      | _ => None
      end
  | RMul args =>
      match args with
      | _ :: _ :: _ =>
          (fix go (l : list rexpr) (q : Q) (m : mono) (v : option expr) : option expr :=
             match l with
             | [] => match v with
                     | Some e => Some (Mul q m e)
                     | None => Some (Cst q m)
                     end
             | x :: r =>
                 match x with
                 | RNum q' => if (is_one q' || is_zero q' || negb (is_one q))%bool then None
                              else go r (Qred q') m v          (* one number, not 0, not 1 *)
                 | RSym a => if existsb (fun p => String.eqb a (fst p)) m then None
                             else go r q (m ++ [(a, 1%nat)]) v
                 | RPow a k => if (existsb (fun p => String.eqb a (fst p)) m || negb (Nat.leb 2 k))%bool then None
                               else go r q (m ++ [(a, k)]) v
                 | RMul _ => None                               (* nested product: not canonical *)
                 | _ => match v, norm x with
                        | None, Some e => go r q m (Some e)
                        | _, _ => None                          (* two form factors: outside the fragment *)
                        end
                 end
             end) args 1 [] None
      | _ => None
      end
  end.

Definition agree (model : expr) (impl : rexpr) : bool :=
  match norm impl with Some e => eqv true model e | None => false end.
Definition agree1 (op : expr -> expr) (arg res : rexpr) : bool :=
  match norm arg, norm res with Some a, Some r => eqv true (op a) r | _, _ => false end.
Definition agree2 (op : expr -> expr -> expr) (a b res : rexpr) : bool :=
  match norm a, norm b, norm res with Some x, Some y, Some r => eqv true (op x y) r | _, _, _ => false end.
Definition infer_agree (impl : rexpr) (r : ires) : bool :=
  match norm impl with Some e => ires_eqb (infer e) r | None => false end.

(* the atoms of a value / of a program *)
Fixpoint atoms (e : expr) : list (string * nat * nat) :=
  match e with
  | Form s k n => [(s, k, n)]
  | D a | Delta a | Hodge a => atoms a
  | Wedge a b => atoms a ++ atoms b
  | Add ts => (fix go (l : list expr) : list (string * nat * nat) :=
                 match l with [] => [] | t :: r => atoms t ++ go r end) ts
  | Cst _ _ => []
  | Mul _ _ v => atoms v
  end.
Fixpoint tatoms (t : tree) : list (string * nat * nat) :=
  match t with
  | TForm s k n => [(s, k, n)]
  | TConst _ => []
  | TScale _ t | TD t | TDelta t | THodge t => tatoms t
  | TSum ts => (fix go (l : list tree) : list (string * nat * nat) :=
                  match l with [] => [] | t :: r => tatoms t ++ go r end) ts
  | TWedge a b => tatoms a ++ tatoms b
  end.

(* ------------------------------------------------------------------ semantics *)
(* A graded module with the operators of exterior calculus.  [gops] carries the
   operations, [laws] the defining hypotheses (Proofs/ExteriorP.v works in a Section over
   an arbitrary [G : gops] with the Hypothesis [laws G], and gives a concrete instance). *)
Record gops : Type := {
  R : Type;                               (* the commutative ring of constants, a Q-algebra *)
  r0 : R; r1 : R; radd : R -> R -> R; rmul : R -> R -> R; ropp : R -> R;
  ofQ : Q -> R;
  M : Type;                               (* the forms of all degrees *)
  m0 : M; madd : M -> M -> M; mopp : M -> M; smul : R -> M -> M;
  deg : M -> nat -> Prop;                 (* "x is a k-form" *)
  dim : nat;                              (* the dimension n *)
  unit : M;                               (* the constant function 1 *)
  opd : M -> M; opdelta : M -> M; ophodge : M -> M; opwedge : M -> M -> M
}.

Section Semantics.
  Variable G : gops.
  Notation "x +r y" := (radd G x y) (at level 50, left associativity).
  Notation "x *r y" := (rmul G x y) (at level 40, left associativity).
  Notation "x +m y" := (madd G x y) (at level 50, left associativity).
  Notation "c ** x" := (smul G c x) (at level 45, right associativity).

  Definition rsgn (e : nat) : R G := if Nat.even e then r1 G else ropp G (r1 G).

  Record laws : Prop := {
    (* constants *)
    L_ring : Ring_theory.ring_theory (r0 G) (r1 G) (radd G) (rmul G)
               (fun a b => a +r ropp G b) (ropp G) eq;
    L_ofQ_ext : forall a b, a == b -> ofQ G a = ofQ G b;
    L_ofQ_1 : ofQ G 1 = r1 G;
    L_ofQ_add : forall a b, ofQ G (a + b) = ofQ G a +r ofQ G b;
    L_ofQ_mul : forall a b, ofQ G (a * b) = ofQ G a *r ofQ G b;
    (* module *)
    L_add_comm : forall x y, x +m y = y +m x;
    L_add_assoc : forall x y z, x +m (y +m z) = (x +m y) +m z;
    L_add_0 : forall x, m0 G +m x = x;
    L_add_opp : forall x, x +m mopp G x = m0 G;
    L_smul_add_r : forall c x y, c ** (x +m y) = c ** x +m c ** y;
    L_smul_add_l : forall a b x, (a +r b) ** x = a ** x +m b ** x;
    L_smul_mul : forall a b x, (a *r b) ** x = a ** (b ** x);
    L_smul_1 : forall x, r1 G ** x = x;
    (* grading *)
    L_deg_0 : forall k, deg G (m0 G) k;
    L_deg_add : forall x y k, deg G x k -> deg G y k -> deg G (x +m y) k;
    L_deg_smul : forall c x k, deg G x k -> deg G (c ** x) k;
    L_deg_unit : deg G (unit G) 0;
    (* linearity *)
    L_d_add : forall x y, opd G (x +m y) = opd G x +m opd G y;
    L_d_smul : forall c x, opd G (c ** x) = c ** opd G x;
    L_delta_add : forall x y, opdelta G (x +m y) = opdelta G x +m opdelta G y;
    L_delta_smul : forall c x, opdelta G (c ** x) = c ** opdelta G x;
    L_hodge_add : forall x y, ophodge G (x +m y) = ophodge G x +m ophodge G y;
    L_hodge_smul : forall c x, ophodge G (c ** x) = c ** ophodge G x;
    L_wedge_add_l : forall x y z, opwedge G (x +m y) z = opwedge G x z +m opwedge G y z;
    L_wedge_add_r : forall x y z, opwedge G x (y +m z) = opwedge G x y +m opwedge G x z;
    L_wedge_smul_l : forall c x y, opwedge G (c ** x) y = c ** opwedge G x y;
    L_wedge_smul_r : forall c x y, opwedge G x (c ** y) = c ** opwedge G x y;
    (* the laws of the property *)
    L_dd : forall x, opd G (opd G x) = m0 G;
    L_deltadelta : forall x, opdelta G (opdelta G x) = m0 G;
    L_d_top : forall x, deg G x (dim G) -> opd G x = m0 G;
    L_delta_bot : forall x, deg G x 0 -> opdelta G x = m0 G;
    L_d_unit : opd G (unit G) = m0 G;
    L_hodge_hodge : forall x k, deg G x k -> (k <= dim G)%nat ->
                    ophodge G (ophodge G x) = rsgn (k * (dim G - k)) ** x;
    (* degree shifts *)
    L_deg_d : forall x k, deg G x k -> deg G (opd G x) (S k);
    L_deg_delta : forall x k, deg G x (S k) -> deg G (opdelta G x) k;
    L_deg_hodge : forall x k, deg G x k -> (k <= dim G)%nat -> deg G (ophodge G x) (dim G - k);
    L_deg_wedge : forall x y k l, deg G x k -> deg G y l -> deg G (opwedge G x y) (k + l)
  }.

  (* environments: values of the symbolic constants and of the form atoms.  An atom is
     looked up by its NAME only, as sympy's == does. *)
  Variable cenv : string -> R G.
  Variable fenv : string -> M G.

  Fixpoint rpow (x : R G) (k : nat) : R G :=
    match k with O => r1 G | S k' => x *r rpow x k' end.
  Fixpoint mval (m : mono) : R G :=
    match m with [] => r1 G | p :: r => rpow (cenv (fst p)) (snd p) *r mval r end.
  Definition cval (c : Q * mono) : R G := ofQ G (fst c) *r mval (snd c).

  Fixpoint denote (e : expr) : M G :=
    match e with
    | Form s _ _ => fenv s
    | D a => opd G (denote a)
    | Delta a => opdelta G (denote a)
    | Hodge a => ophodge G (denote a)
    | Wedge a b => opwedge G (denote a) (denote b)
    | Add ts => (fix go (l : list expr) : M G :=
                   match l with [] => m0 G | t :: r => denote t +m go r end) ts
    | Cst q m => cval (q, m) ** unit G
    | Mul q m v => cval (q, m) ** denote v
    end.

  (* the meaning of a user-level program, directly *)
  Fixpoint tden (t : tree) : M G :=
    match t with
    | TForm s _ _ => fenv s
    | TConst c => cval (coef_c c) ** unit G
    | TScale c t => cval (coef_c c) ** tden t
    | TSum ts => (fix go (l : list tree) : M G :=
                    match l with [] => m0 G | t :: r => tden t +m go r end) ts
    | TD t => opd G (tden t)
    | TDelta t => opdelta G (tden t)
    | THodge t => ophodge G (tden t)
    | TWedge a b => opwedge G (tden a) (tden b)
    end.

  (* well-formed atoms: dimension n, degree within 0..n, and the environment gives a k-form *)
  Definition good_atom (a : string * nat * nat) : Prop :=
    let '(s, k, n) := a in n = dim G /\ (k <= n)%nat /\ deg G (fenv s) k.
  Definition wfe (e : expr) : Prop := forall a, In a (atoms e) -> good_atom a.
  Definition wft (t : tree) : Prop := forall a, In a (tatoms t) -> good_atom a.
End Semantics.

(* no bare constant used as an operand: the grammar of the property *)
Fixpoint const_free (t : tree) : bool :=
  match t with
  | TForm _ _ _ => true
  | TConst _ => false
  | TScale _ t | TD t | TDelta t | THodge t => const_free t
  | TSum ts => (fix go (l : list tree) : bool :=
                  match l with [] => true | t :: r => const_free t && go r end) ts
  | TWedge a b => const_free a && const_free b
  end.
