(* Executable model of sympde.expr.evaluation.TerminalExpr.eval on plain expressions (C01),
   arm for arm, and the classical denotation [gden] of the same trees (the oracle).
   No proofs here.

   Values.  A lowered value is a [tensor] of terminal expressions (Core/Classical.v), read the way
   the code builds them:  [Sc] a scalar sympy expression, [Mat] an ImmutableDenseMatrix (a vector
   is the d x 1 column the code makes of a VectorFunction), [Vec] a sympy *Tuple* (a literal Tuple the user wrote; before the
   repair 14cf28b also what Cross_3d returned).  The distinction matters: Python's `+` and `*` act entry-wise on
   matrices but concatenate / repeat tuples.

   Derivatives.  The tables of Gen/Formulas.v are terms over generic atoms  d^al u, d^al F_i,
   d^al A_ij ; they are instantiated at the lowered argument by [tsubst], which applies the REFERENCE
   derivative [tD] (Core/Terminal.v) along the multi-index.  [tD] rather than the C05 model [dop]:
   C05 proves that dop computes the derivation D_i (dop_sound) and Core proves the same of tD
   (ev_tD), so on everything dop accepts the two are interchangeable in any differential field;
   tD additionally preserves definedness (dfd_tD), which lets the soundness induction of
   Proofs/LowerP.v go through quotients, powers and elementary functions, and it is the oracle's
   own language, so the per-table lemmas are closed computations.  What is lost is only dop's
   refusal of elementary functions of fields (dx(sin(u)) raises): those inputs are outside C01's
   fragment and are not generated. *)
From Coq Require Import Ascii String ZArith List Bool Arith.
From V Require Import Core.Terminal Core.Classical Gen.Formulas.
Import ListNotations. Open Scope string_scope.

(* ------------------------------------------------------------------------------ syntax *)
Inductive gop1 := OGrad | OCurl | ORot | ODiv | OLaplace | OHessian.
Inductive gop2 := OBracket | ODot | OCross | OInner | OOuter | OConvect.

(* what the user writes (after sympde's own construction-time rewriting: the harness serialises
   the CONSTRUCTED object) *)
Inductive gexpr :=
| GNum (p : Z) (q : positive)                  (* Integer / Rational *)
| GConst (name : string)                       (* Constant *)
| GCoord (lg : bool) (i : nat)                 (* coordinate function: x,y,z (false) / x1,x2,x3 (true) *)
| GSF (name : string)                          (* scalar function *)
| GVF (name : string)                          (* vector function *)
| GComp (name : string) (i : nat)              (* F[i] *)
| GAdd (l : list gexpr)
| GMul (l : list gexpr)
| GPow (b e : gexpr)
| GFn (f : fname) (a : gexpr)                  (* sin, cos, ..., Abs *)
| GOp1 (o : gop1) (a : gexpr)
| GOp2 (o : gop2) (a b : gexpr)
| GTup (l : list gexpr)                        (* sympy Tuple *)
| GMat (r c : nat) (l : list gexpr).           (* Matrix, r x c, entries row-major *)

Section GInd.
  Variable Pr : gexpr -> Prop.
  Hypothesis HNum : forall p q, Pr (GNum p q).
  Hypothesis HConst : forall n, Pr (GConst n).
  Hypothesis HCoord : forall l i, Pr (GCoord l i).
  Hypothesis HSF : forall n, Pr (GSF n).
  Hypothesis HVF : forall n, Pr (GVF n).
  Hypothesis HComp : forall n i, Pr (GComp n i).
  Hypothesis HAdd : forall l, Forall Pr l -> Pr (GAdd l).
  Hypothesis HMul : forall l, Forall Pr l -> Pr (GMul l).
  Hypothesis HPow : forall b e, Pr b -> Pr e -> Pr (GPow b e).
  Hypothesis HFn : forall f a, Pr a -> Pr (GFn f a).
  Hypothesis HOp1 : forall o a, Pr a -> Pr (GOp1 o a).
  Hypothesis HOp2 : forall o a b, Pr a -> Pr b -> Pr (GOp2 o a b).
  Hypothesis HTup : forall l, Forall Pr l -> Pr (GTup l).
  Hypothesis HMat : forall r c l, Forall Pr l -> Pr (GMat r c l).

  Fixpoint gexpr_ind' (e : gexpr) : Pr e :=
    let go := fix go (l : list gexpr) : Forall Pr l :=
                match l with [] => Forall_nil _ | x :: r => Forall_cons x (gexpr_ind' x) (go r) end in
    match e with
    | GNum p q => HNum p q
    | GConst n => HConst n
    | GCoord l i => HCoord l i
    | GSF n => HSF n
    | GVF n => HVF n
    | GComp n i => HComp n i
    | GAdd l => HAdd l (go l)
    | GMul l => HMul l (go l)
    | GPow b x => HPow b x (gexpr_ind' b) (gexpr_ind' x)
    | GFn f a => HFn f a (gexpr_ind' a)
    | GOp1 o a => HOp1 o a (gexpr_ind' a)
    | GOp2 o a b => HOp2 o a b (gexpr_ind' a) (gexpr_ind' b)
    | GTup l => HTup l (go l)
    | GMat r c l => HMat r c l (go l)
    end.
End GInd.

Definition op1_name (o : gop1) : string :=
  match o with OGrad => "Grad" | OCurl => "Curl" | ORot => "Rot" | ODiv => "Div"
             | OLaplace => "Laplace" | OHessian => "Hessian" end.
Definition op2_name (o : gop2) : string :=
  match o with OBracket => "Bracket" | ODot => "Dot" | OCross => "Cross" | OInner => "Inner"
             | OOuter => "Outer" | OConvect => "Convect" end.

(* ------------------------------------------------------------------------------ leaves *)
Definition fatom (f : string) (c : nat) : texpr := TAt (AFld false f c SNone []).
Definition tnum (p : Z) (q : positive) : texpr := if Pos.eqb q 1 then TZ p else TQ p q.

(* sympy's  base ** exp  on scalars, read as a terminal expression (as Core/SExpr.sx2t does) *)
Definition tpow (b e : texpr) : texpr :=
  match e with
  | TZ (Zpos n) => TPowN b (Npos n)
  | TZ Z0 => TPowN b 0
  | TZ (Zneg n) => TInv (TPowN b (Npos n))
  | _ => TPowG b e
  end.

(* ------------------------------------------------------ Python's + and * on lowered values *)
Fixpoint zipw {A} (f : A -> A -> A) (a b : list A) : list A :=
  match a, b with x :: r, y :: s => f x y :: zipw f r s | _, _ => [] end.

Definition dims (M : list (list texpr)) : nat * nat :=
  (length M, match M with [] => 0 | r :: _ => length r end).
Definition rect (M : list (list texpr)) : bool :=
  forallb (fun r => Nat.eqb (length r) (snd (dims M))) M.

Fixpoint repeat_app {A} (l : list A) (n : nat) : list A :=
  match n with 0 => [] | S k => l ++ repeat_app l k end.

Definition col (M : list (list texpr)) (j : nat) : list texpr := map (fun r => nth j r (TZ 0)) M.
Definition matmul (A B : list (list texpr)) : list (list texpr) :=
  map (fun ra => map (fun j => tsum (zipmul ra (col B j))) (seq0 (snd (dims B)))) A.

Definition ladd (a b : tensor) : option tensor :=
  match a, b with
  | Sc x, Sc y => Some (Sc (TAdd x y))
  | Mat A, Mat B =>                                   (* entry-wise; ShapeError otherwise *)
      if Nat.eqb (fst (dims A)) (fst (dims B)) && Nat.eqb (snd (dims A)) (snd (dims B)) && rect A && rect B
      then Some (Mat (zipw (zipw TAdd) A B)) else None
  | Vec l, Vec m => Some (Vec (l ++ m))               (* Tuple + Tuple CONCATENATES *)
  | _, _ => None                                      (* TypeError *)
  end.

Definition lmul (a b : tensor) : option tensor :=
  match a, b with
  | Sc x, Sc y => Some (Sc (TMul x y))
  | Sc x, Mat B => Some (Mat (map (map (TMul x)) B))
  | Mat A, Sc y => Some (Mat (map (map (fun a => TMul a y)) A))
  | Mat A, Mat B =>                                   (* matrix product; ShapeError otherwise *)
      if Nat.eqb (snd (dims A)) (fst (dims B)) && rect A && rect B then Some (Mat (matmul A B)) else None
  | Sc (TZ n), Vec l | Vec l, Sc (TZ n) => Some (Vec (repeat_app l (Z.to_nat n)))   (* int * Tuple REPEATS *)
  | _, _ => None                                      (* TypeError *)
  end.

Definition lpow (a b : tensor) : option tensor :=
  match a, b with
  | Sc x, Sc y => Some (Sc (tpow x y))
  | _, _ => None                                      (* matrix powers: not modelled *)
  end.

Definition fold1 (f : tensor -> tensor -> option tensor) (l : list tensor) : option tensor :=
  match l with
  | [] => None
  | x :: r => fold_left (fun acc y => match acc with Some o => f o y | None => None end) r (Some x)
  end.

(* ------------------------------------------------------------ the name-based dispatch *)
Definition nat_str (d : nat) : string :=
  match d with 0 => "0" | 1 => "1" | 2 => "2" | 3 => "3" | 4 => "4" | _ => "?" end.

(* '<fmt>'.format(op, dim) for the two place-holders {0} and {1} *)
Fixpoint pyformat (fmt a0 a1 : string) : string :=
  match fmt with
  | EmptyString => EmptyString
  | String "{"%char (String "0"%char (String "}"%char rest)) => a0 ++ pyformat rest a0 a1
  | String "{"%char (String "1"%char (String "}"%char rest)) => a1 ++ pyformat rest a0 a1
  | String c rest => String c (pyformat rest a0 a1)
  end.

Definition mem (s : string) (l : list string) : bool := existsb (String.eqb s) l.

(* the class name TerminalExpr looks up with eval(...): the arms `isinstance(expr, _diff_ops)`
   (Logical... when the domain has no mapping) and `isinstance(expr, _generic_ops)`; the format
   strings and the two registries are the extracted ones (Gen/Formulas.v) *)
Definition class_name (lg : bool) (op : string) (d : nat) : option string :=
  if mem op diff_ops then Some (pyformat (if lg then fmt_logical else fmt_physical) op (nat_str d))
  else if mem op generic_ops then Some (pyformat fmt_generic op (nat_str d))
  else None.

Fixpoint assoc {B} (k : string) (l : list (string * B)) : option B :=
  match l with [] => None | (k', v) :: r => if String.eqb k k' then Some v else assoc k r end.

(* --------------------------------------------------- argument kinds and table instantiation *)
Definition is_datom (t : texpr) : bool :=
  match t with TAt (AFld _ _ _ _ al) => negb (all_zero al) | _ => false end.

(* kind of a lowered argument in dimension d: s scalar, k (1-D) bare derivative atom, c column,
   t tuple, m d x d matrix *)
Definition kind_of (d : nat) (t : tensor) : option string :=
  match t with
  | Sc x => Some (if Nat.eqb d 1 && is_datom x then "k" else "s")
  | Vec l => if Nat.eqb (length l) d then Some "t" else None
  | Mat M =>
      if Nat.eqb (length M) d && forallb (fun r => Nat.eqb (length r) 1) M then Some "c"
      else if Nat.eqb (length M) d && forallb (fun r => Nat.eqb (length r) d) M then Some "m"
      else None
  end.

Definition dig (i : nat) : string := match i with 0 => "0" | 1 => "1" | 2 => "2" | _ => "9" end.

Fixpoint mapi_from {A B} (f : nat -> A -> B) (i : nat) (l : list A) : list B :=
  match l with [] => [] | x :: r => f i x :: mapi_from f (S i) r end.
Definition mapi {A B} (f : nat -> A -> B) (l : list A) : list B := mapi_from f 0 l.

(* generic atom names of the first (false) / second (true) argument *)
Definition gnames (second : bool) : string * string * string :=
  if second then ("v", "G", "B") else ("u", "F", "A").

Definition genv := list (string * nat * texpr).

Definition env_of (second : bool) (k : string) (t : tensor) : genv :=
  let '(sn, vn, mn) := gnames second in
  match t with
  | Sc x => [(sn, 0, x)]
  | Vec l => mapi (fun i x => (vn, S i, x)) l
  | Mat M =>
      if String.eqb k "c" then mapi (fun i r => (vn, S i, nth 0 r (TZ 0))) M
      else concat (mapi (fun i r => mapi (fun j x => (mn ++ dig i ++ dig j, 0, x)) r) M)
  end.

Fixpoint elookup (env : genv) (f : string) (c : nat) : option texpr :=
  match env with
  | [] => None
  | (f', c', x) :: r => if String.eqb f f' && Nat.eqb c c' then Some x else elookup r f c
  end.

(* d_i^n and d^al with the reference derivative; the order matches TerminalP.iterD *)
Fixpoint tDn (lg : bool) (i n : nat) (t : texpr) : option texpr :=
  match n with 0 => Some t | S k => match tDn lg i k t with Some u => tD lg i u | None => None end end.
Fixpoint tDs (lg : bool) (i : nat) (al : list nat) (t : texpr) : option texpr :=
  match al with
  | [] => Some t
  | a :: r => match tDs lg (S i) r t with Some u => tDn lg i a u | None => None end
  end.

(* a table entry instantiated at the argument(s): generic atom d^al X  |->  d^al (argument component) *)
Fixpoint tsubst (env : genv) (t : texpr) : option texpr :=
  match t with
  | TZ z => Some (TZ z)
  | TAt (AFld lg f c SNone al) =>
      match elookup env f c with Some x => tDs lg 0 al x | None => None end
  | TAdd a b => omap2 TAdd (tsubst env a) (tsubst env b)
  | TSub a b => omap2 TSub (tsubst env a) (tsubst env b)
  | TMul a b => omap2 TMul (tsubst env a) (tsubst env b)
  | TOpp a => option_map TOpp (tsubst env a)
  | TPowN a n => option_map (fun x => TPowN x n) (tsubst env a)
  | _ => None                                          (* not the shape of a table: fail closed *)
  end.

Definition tens_map (f : texpr -> option texpr) (t : tensor) : option tensor :=
  match t with
  | Sc x => option_map Sc (f x)
  | Vec l => option_map Vec (sequence (map f l))
  | Mat M => option_map Mat (sequence (map (fun r => sequence (map f r)) M))
  end.

Definition table_of (name kinds : string) : option gres :=
  match assoc name tables with Some tab => assoc kinds tab | None => None end.

(* new applied to the lowered arguments *)
Definition apply1 (lg : bool) (o : gop1) (d : nat) (a : tensor) : option tensor :=
  match class_name lg (op1_name o) d, kind_of d a with
  | Some name, Some k =>
      match table_of name k with
      | Some (GenOk T) => tens_map (tsubst (env_of false k a)) T
      | _ => None                      (* NameError (no such class) / the class' eval raises *)
      end
  | _, _ => None
  end.

Definition apply2 (lg : bool) (o : gop2) (d : nat) (a b : tensor) : option tensor :=
  match class_name lg (op2_name o) d, kind_of d a, kind_of d b with
  | Some name, Some ka, Some kb =>
      match table_of name (ka ++ kb) with
      | Some (GenOk T) => tens_map (tsubst ((env_of false ka a ++ env_of true kb b)%list)) T
      | _ => None
      end
  | _, _, _ => None
  end.

(* ------------------------------------------------------------------------------ lowering *)
Fixpoint chunk (c : nat) (fuel : nat) (l : list texpr) : list (list texpr) :=
  match fuel with
  | 0 => []
  | S k => match l with [] => [] | _ => firstn c l :: chunk c k (skipn c l) end
  end.

Definition scalars (l : list tensor) : option (list texpr) :=
  sequence (map (fun t => match t with Sc x => Some x | _ => None end) l).

(* operator-free scalar expressions as they are (sympy objects TerminalExpr returns untouched) *)
Fixpoint raw (e : gexpr) : option texpr :=
  let rawl := fix rawl (l : list gexpr) : option (list texpr) :=
                match l with
                | [] => Some []
                | x :: r => match raw x, rawl r with Some a, Some b => Some (a :: b) | _, _ => None end
                end in
  match e with
  | GNum p q => Some (tnum p q)
  | GConst n => Some (TAt (AConst n))
  | GCoord l i => Some (TAt (ACoord l i))
  | GSF f => Some (fatom f 0)
  | GComp f i => Some (fatom f (S i))
  | GAdd l => match rawl l with
              | Some (x :: r) => Some (fold_left TAdd r x)
              | _ => None end
  | GMul l => match rawl l with
              | Some (x :: r) => Some (fold_left TMul r x)
              | _ => None end
  | GPow b x => omap2 tpow (raw b) (raw x)
  | GFn f a => option_map (TFn f) (raw a)
  | _ => None
  end.

Fixpoint lower (lg : bool) (d : nat) (e : gexpr) {struct e} : option tensor :=
  let lowerl := fix lowerl (l : list gexpr) : option (list tensor) :=
                  match l with
                  | [] => Some []
                  | x :: r => match lower lg d x, lowerl r with Some a, Some b => Some (a :: b) | _, _ => None end
                  end in
  match e with
  | GNum p q => Some (Sc (tnum p q))
  | GConst n => Some (Sc (TAt (AConst n)))
  | GCoord l i => Some (Sc (TAt (ACoord l i)))
  | GSF f => Some (Sc (fatom f 0))                                         (* ScalarFunction: itself *)
  | GVF f => Some (Mat (map (fun i => [fatom f (S i)]) (seq0 d)))         (* column of components *)
  | GComp f i => Some (Sc (fatom f (S i)))                                (* falls through: itself *)
  | GAdd l => match lowerl l with Some ts => fold1 ladd ts | None => None end
  | GMul l => match lowerl l with Some ts => fold1 lmul ts | None => None end
  | GPow b x => match lower lg d b, lower lg d x with Some tb, Some tx => lpow tb tx | _, _ => None end
  | GFn Fabs a => match lower lg d a with Some (Sc t) => Some (Sc (TFn Fabs t)) | _ => None end
  | GFn f a => option_map (fun t => Sc (TFn f t)) (raw a)                 (* not an arm: returned as is *)
  | GOp1 o a => match lower lg d a with Some ta => apply1 lg o d ta | None => None end
  | GOp2 o a b => match lower lg d a, lower lg d b with
                  | Some ta, Some tb => apply2 lg o d ta tb
                  | _, _ => None end
  | GTup l => option_map Vec ((fix rawl (l : list gexpr) : option (list texpr) :=
                                 match l with
                                 | [] => Some []
                                 | x :: r => match raw x, rawl r with Some a, Some b => Some (a :: b) | _, _ => None end
                                 end) l)                                   (* not an arm: returned as is *)
  | GMat r c l => match lowerl l with
                  | Some ts => match scalars ts with
                               | Some xs => if Nat.eqb (length xs) (r * c) && negb (Nat.eqb c 0)
                                            then Some (Mat (chunk c r xs)) else None
                               | None => None end
                  | None => None end
  end.

(* --------------------------------------------------------------- shapes (typing) *)
Inductive shape := ShS | ShV | ShM.      (* scalar / d-vector / d x d matrix *)

Definition shape_eqb (a b : shape) : bool :=
  match a, b with ShS, ShS | ShV, ShV | ShM, ShM => true | _, _ => false end.

(* result shape of the classical operators; None = not defined for these shapes / this dimension *)
Definition op1_shape (o : gop1) (d : nat) (s : shape) : option shape :=
  match o, s with
  | OGrad, ShS => Some ShV
  | OGrad, ShV => Some ShM
  | OCurl, ShV => match d with 2 => Some ShS | 3 => Some ShV | _ => None end
  | ORot, ShS => if Nat.eqb d 2 then Some ShV else None
  | ODiv, ShV => Some ShS
  | ODiv, ShM => Some ShV
  | OLaplace, ShS => Some ShS
  | OLaplace, ShV => Some ShV
  | OHessian, ShS => Some ShM
  | _, _ => None
  end.

Definition op2_shape (o : gop2) (d : nat) (s1 s2 : shape) : option shape :=
  match o, s1, s2 with
  | OBracket, ShS, ShS => if Nat.eqb d 2 then Some ShS else None
  | ODot, ShV, ShV => Some ShS
  | ODot, ShM, ShV | ODot, ShV, ShM => Some ShV
  | OCross, ShV, ShV => match d with 2 => Some ShS | 3 => Some ShV | _ => None end
  | OInner, ShV, ShV | OInner, ShM, ShM => Some ShS
  | OOuter, ShV, ShV => Some ShM
  | OConvect, ShV, ShV => Some ShV
  | _, _, _ => None
  end.

Fixpoint shape_of (d : nat) (e : gexpr) {struct e} : option shape :=
  let shapes := fix shapes (l : list gexpr) : option (list shape) :=
                  match l with
                  | [] => Some []
                  | x :: r => match shape_of d x, shapes r with Some a, Some b => Some (a :: b) | _, _ => None end
                  end in
  match e with
  | GNum _ _ | GConst _ | GSF _ => Some ShS
  | GCoord _ i | GComp _ i => if Nat.ltb i d then Some ShS else None
  | GVF _ => Some ShV
  | GAdd l => match shapes l with
              | Some (s :: r) => if forallb (shape_eqb s) r then Some s else None
              | _ => None end
  | GMul l => match shapes l with                           (* scalars and at most one tensor factor *)
              | Some (s :: r) =>
                  match filter (fun x => negb (shape_eqb x ShS)) (s :: r) with
                  | [] => Some ShS
                  | [t] => Some t
                  | _ => None end
              | _ => None end
  | GPow b x => match shape_of d b, shape_of d x with Some ShS, Some ShS => Some ShS | _, _ => None end
  | GFn _ a => match shape_of d a with Some ShS => Some ShS | _ => None end
  | GOp1 o a => match shape_of d a with Some s => op1_shape o d s | None => None end
  | GOp2 o a b => match shape_of d a, shape_of d b with Some s1, Some s2 => op2_shape o d s1 s2 | _, _ => None end
  | GTup l => match shapes l with
              | Some ss => if forallb (shape_eqb ShS) ss && Nat.eqb (length ss) d then Some ShV else None
              | None => None end
  | GMat r c l => match shapes l with
                  | Some ss =>
                      if forallb (shape_eqb ShS) ss && Nat.eqb (length ss) (r * c) && Nat.eqb r d then
                        (if Nat.eqb c 1 then Some ShV else if Nat.eqb c d then Some ShM else None)
                      else None
                  | None => None end
  end.

(* --------------------------------------------------------------- the classical denotation *)
Definition tadd (a b : tensor) : option tensor :=
  match a, b with
  | Sc x, Sc y => Some (Sc (TAdd x y))
  | Vec l, Vec m => if Nat.eqb (length l) (length m) then Some (Vec (zipw TAdd l m)) else None
  | Mat A, Mat B =>
      if Nat.eqb (fst (dims A)) (fst (dims B)) && Nat.eqb (snd (dims A)) (snd (dims B)) && rect A && rect B
      then Some (Mat (zipw (zipw TAdd) A B)) else None
  | _, _ => None
  end.

Definition tmul (a b : tensor) : option tensor :=
  match a, b with
  | Sc x, Sc y => Some (Sc (TMul x y))
  | Sc x, Vec l => Some (Vec (map (TMul x) l))
  | Vec l, Sc y => Some (Vec (map (fun a => TMul a y) l))
  | Sc x, Mat B => Some (Mat (map (map (TMul x)) B))
  | Mat A, Sc y => Some (Mat (map (map (fun a => TMul a y)) A))
  | _, _ => None
  end.

Definition matvec (M : list (list texpr)) (v : list texpr) : tensor := Vec (map (fun r => tsum (zipmul r v)) M).
Definition vecmat (v : list texpr) (M : list (list texpr)) : tensor :=
  Vec (map (fun j => tsum (zipmul v (col M j))) (seq0 (snd (dims M)))).

Definition wf_vec (d : nat) (l : list texpr) : bool := Nat.eqb (length l) d.
Definition wf_mat (d : nat) (M : list (list texpr)) : bool :=
  Nat.eqb (length M) d && forallb (fun r => Nat.eqb (length r) d) M.

Definition cl1 (lg : bool) (o : gop1) (d : nat) (a : tensor) : option tensor :=
  match o, a with
  | OGrad, Sc f => grad_s lg d f
  | OGrad, Vec F => if wf_vec d F then grad_v lg d F else None
  | OCurl, Vec F => if wf_vec d F then curl_v lg d F else None
  | ORot, Sc f => if Nat.eqb d 2 then rot_s lg f else None
  | ODiv, Vec F => if wf_vec d F then div_v lg d F else None
  | ODiv, Mat M => if wf_mat d M then div_m lg d M else None
  | OLaplace, Sc f => laplace_s lg d f
  | OLaplace, Vec F => if wf_vec d F then laplace_v lg d F else None
  | OHessian, Sc f => hessian_s lg d f
  | _, _ => None
  end.

Definition cl2 (lg : bool) (o : gop2) (d : nat) (a b : tensor) : option tensor :=
  match o, a, b with
  | OBracket, Sc f, Sc g => if Nat.eqb d 2 then bracket_s lg f g else None
  | ODot, Vec u, Vec v => if wf_vec d u && wf_vec d v then Some (dot_v u v) else None
  | ODot, Mat M, Vec v => if wf_mat d M && wf_vec d v then Some (matvec M v) else None
  | ODot, Vec v, Mat M => if wf_mat d M && wf_vec d v then Some (vecmat v M) else None
  | OCross, Vec u, Vec v => if wf_vec d u && wf_vec d v then cross_v d u v else None
  | OInner, Vec u, Vec v => if wf_vec d u && wf_vec d v then Some (dot_v u v) else None
  | OInner, Mat A, Mat B => if wf_mat d A && wf_mat d B then Some (inner_m A B) else None
  | OOuter, Vec u, Vec v => if wf_vec d u && wf_vec d v then Some (outer_v u v) else None
  | OConvect, Vec u, Vec v => if wf_vec d u && wf_vec d v then convect_v lg d u v else None
  | _, _, _ => None
  end.

(* the classical meaning of a tree: Sc scalar, Vec d-vector, Mat d x d matrix (mathematical reading;
   no tuples here) *)
Fixpoint gden (lg : bool) (d : nat) (e : gexpr) {struct e} : option tensor :=
  let gdenl := fix gdenl (l : list gexpr) : option (list tensor) :=
                 match l with
                 | [] => Some []
                 | x :: r => match gden lg d x, gdenl r with Some a, Some b => Some (a :: b) | _, _ => None end
                 end in
  match e with
  | GNum p q => Some (Sc (tnum p q))
  | GConst n => Some (Sc (TAt (AConst n)))
  | GCoord l i => if Nat.ltb i d then Some (Sc (TAt (ACoord l i))) else None
  | GSF f => Some (Sc (fatom f 0))
  | GVF f => Some (Vec (map (fun i => fatom f (S i)) (seq0 d)))
  | GComp f i => if Nat.ltb i d then Some (Sc (fatom f (S i))) else None
  | GAdd l => match gdenl l with Some ts => fold1 tadd ts | None => None end
  | GMul l => match gdenl l with Some ts => fold1 tmul ts | None => None end
  | GPow b x => match gden lg d b, gden lg d x with Some (Sc tb), Some (Sc tx) => Some (Sc (tpow tb tx)) | _, _ => None end
  | GFn f a => match gden lg d a with Some (Sc t) => Some (Sc (TFn f t)) | _ => None end
  | GOp1 o a => match gden lg d a with Some ta => cl1 lg o d ta | None => None end
  | GOp2 o a b => match gden lg d a, gden lg d b with Some ta, Some tb => cl2 lg o d ta tb | _, _ => None end
  | GTup l => match gdenl l with
              | Some ts => match scalars ts with
                           | Some xs => if wf_vec d xs then Some (Vec xs) else None
                           | None => None end
              | None => None end
  | GMat r c l => match gdenl l with
                  | Some ts => match scalars ts with
                               | Some xs =>
                                   if Nat.eqb (length xs) (r * c) && Nat.eqb r d then
                                     (if Nat.eqb c 1 then Some (Vec xs)
                                      else if Nat.eqb c d then Some (Mat (chunk c r xs)) else None)
                                   else None
                               | None => None end
                  | None => None end
  end.

(* --------------------------------------------------------------- comparison of values *)
(* canonical shape: a vector is a column, a row, or a tuple; 1 x 1 objects are scalars *)
Definition cshape (t : tensor) : nat * nat :=
  match t with
  | Sc _ => (1, 1)
  | Vec l => (length l, 1)
  | Mat M => let '(r, c) := dims M in if Nat.eqb r 1 then (c, 1) else (r, c)
  end.
Definition flat (t : tensor) : list texpr :=
  match t with Sc x => [x] | Vec l => l | Mat M => concat M end.
Definition wf_tensor (t : tensor) : bool := match t with Mat M => rect M | _ => true end.

Definition pair_eqb (a b : nat * nat) : bool := Nat.eqb (fst a) (fst b) && Nat.eqb (snd a) (snd b).

(* same mathematical shape and entry-wise equal by the verified checker *)
Definition teqv (a b : tensor) : bool :=
  pair_eqb (cshape a) (cshape b) && wf_tensor a && wf_tensor b && all2 tequiv (flat a) (flat b).

(* same Python object shape (scalar / tuple of n / r x c matrix): implementation vs model *)
Definition same_repr (a b : tensor) : bool :=
  match a, b with
  | Sc _, Sc _ => true
  | Vec l, Vec m => Nat.eqb (length l) (length m)
  | Mat A, Mat B => pair_eqb (dims A) (dims B) && rect A && rect B
  | _, _ => false
  end.

(* no side conditions: the comparison used only division-free normal forms *)
Definition noconds (a b : tensor) : bool :=
  all2 (fun x y => match tconds x y with [] => true | _ => false end) (flat a) (flat b).

(* --------------------------------------------------------------- supported fragment *)
Definition has_shape (d : nat) (e : gexpr) : bool := match shape_of d e with Some _ => true | None => false end.

(* the operator exists for this dimension in the library (class present in the dispatch tables) *)
Definition op_exists (lg : bool) (op : string) (d : nat) : bool :=
  match class_name lg op d with
  | Some name => match assoc name tables with Some _ => true | None => false end
  | None => false
  end.

(* integer literal exponents *)
Definition int_lit (e : gexpr) : bool := match e with GNum _ 1%positive => true | _ => false end.

(* the tree uses only constructors TerminalExpr has an arm for, on leaves of the domain's own family *)
Fixpoint leaves_ok (lg : bool) (d : nat) (e : gexpr) {struct e} : bool :=
  let all := fix all (l : list gexpr) : bool := match l with [] => true | x :: r => leaves_ok lg d x && all r end in
  match e with
  | GNum _ _ | GConst _ | GSF _ | GVF _ => true
  | GCoord l i => Bool.eqb l lg && Nat.ltb i d
  | GComp _ i => Nat.ltb i d
  | GAdd l | GMul l => all l
  | GPow b x => leaves_ok lg d b && int_lit x
  | GFn _ _ => false                           (* elementary functions: outside the supported fragment *)
  | GOp1 o a => op_exists lg (op1_name o) d && leaves_ok lg d a
  | GOp2 o a b => op_exists lg (op2_name o) d && leaves_ok lg d a && leaves_ok lg d b
  | GTup _ => false                            (* tuples are not lowered: outside *)
  | GMat _ _ _ => false                        (* literal matrices: outside *)
  end.

(* "supported": well-shaped, operators that exist in dimension d, leaves of the right family *)
Definition supported (lg : bool) (d : nat) (e : gexpr) : bool := has_shape d e && leaves_ok lg d e.

(* [regular]: the part of the tree language the soundness induction covers.  Since the repairs
   14cf28b (Cross_3d returns a column matrix) and 1e0454e (matrix arms of Dot_2d / Dot_3d) nothing
   here is a guard against a defect any more; what is excluded is only what is NOT MODELLED classically:
   - products with two matrix-valued operands (Python's `*` is then the matrix product);
   - symbolic (non-literal) exponents;
   - elementary functions and literal tuples / matrices.
   (Before the repairs [regular] also had to exclude: Tuple operands of + and *, Dot with a matrix
   argument, the 3-D (column, Tuple) pair of Dot, Laplace of a Tuple.)
   On supported trees in dimension 2 and 3 it holds automatically (Proofs/LowerP.v, supported_regular). *)
Definition lowers_to_mat (lg : bool) (d : nat) (x : gexpr) : bool :=
  match lower lg d x with Some (Mat _) => true | _ => false end.

Fixpoint regular (lg : bool) (d : nat) (e : gexpr) {struct e} : bool :=
  let all := fix all (l : list gexpr) : bool := match l with [] => true | x :: r => regular lg d x && all r end in
  match e with
  | GAdd l => all l
  | GMul l => all l && Nat.leb (length (filter (lowers_to_mat lg d) l)) 1           (* no matrix products *)
  | GPow b x => regular lg d b && match x with GNum _ _ => true | _ => false end   (* literal exponents *)
  | GFn _ _ => false
  | GOp1 _ a => regular lg d a
  | GOp2 _ a b => regular lg d a && regular lg d b
  | GTup _ => false
  | GMat _ _ _ => false
  | _ => true
  end.
