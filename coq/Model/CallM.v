(* Executable model of calling a form (C10): sympde.expr.expr.{LinearForm,BilinearForm}.__call__,
   BasicForm._free_variables_subs / get_free_variables, BilinearForm.is_symmetric.
   Definitions only (no proofs here: the model still runs when a proof breaks).

   A form is a sum of integrals  (region name, integrand);  an integrand is a tree over named
   leaves with n-ary Add / Mul, Pow and uninterpreted n-ary operator nodes (class name + args):
   exactly what the generic structural serialiser of tools/impl/C10_impl.py returns. *)
From Coq Require Import String ZArith List Bool Arith Permutation.
From V Require Import Core.Terminal.
Import ListNotations.
Open Scope string_scope. Open Scope list_scope.

(* ------------------------------------------------------------------ trees *)
Inductive leaf :=
| LFun (vec : bool) (name sp : string)   (* ScalarFunction / VectorFunction (a declared argument or a free field) with the
                                            tag of ITS SPACE (space name : kind): the hash of a function is
                                            hash((name, space)), so a dictionary / xreplace lookup (hash, then ==)
                                            distinguishes same-named functions of different spaces, although == alone
                                            (Symbol.__eq__: class and name) does not *)
| LConst (name : string)                 (* Constant *)
| LCoord (name : string)                 (* coordinate symbol *)
| LNum (p : Z) (q : positive)            (* Integer / Rational *)
| LOther (cls name : string).            (* any other named atom (NormalVector, ...) *)

Inductive expr :=
| ELeaf (l : leaf)
| EAdd (l : list expr)
| EMul (l : list expr)
| EPow (b e : expr)
| EOp (name : string) (l : list expr).

Definition body := list (string * expr).          (* IntAdd(Integral(expr, region) ...) *)

Inductive fkind := Bilinear | Linear.
Record form := mkForm {
  f_kind : fkind;
  f_trials : list leaf;       (* variables[0]  (empty for a linear form) *)
  f_tests : list leaf;        (* variables[1]  (variables for a linear form) *)
  f_body : body;
  f_atoms : list leaf }.      (* the functions of the integrands in the ITERATION ORDER of the Python set
                                 expr.atoms(ScalarFunction, VectorFunction): the order depends on the hash seed, it is
                                 an input of the model (read off the running interpreter), never computed *)
Definition vars (a : form) : list leaf := f_trials a ++ f_tests a.

(* ------------------------------------------------------------------ equality / order *)
(* [leaf_eqb]: the identity that a dict lookup / set membership sees (equal hash AND ==): class, name and space.
   [leaf_pyeq]: Python's == alone: class and name; the space is ignored *)
Definition leaf_eqb (a b : leaf) : bool :=
  match a, b with
  | LFun v n s, LFun v' n' s' => Bool.eqb v v' && String.eqb n n' && String.eqb s s'
  | LConst n, LConst n' => String.eqb n n'
  | LCoord n, LCoord n' => String.eqb n n'
  | LNum p q, LNum p' q' => Z.eqb p p' && Pos.eqb q q'
  | LOther c n, LOther c' n' => String.eqb c c' && String.eqb n n'
  | _, _ => false
  end.

Definition leaf_pyeq (a b : leaf) : bool :=
  match a, b with
  | LFun v n _, LFun v' n' _ => Bool.eqb v v' && String.eqb n n'
  | _, _ => leaf_eqb a b
  end.

Fixpoint expr_eqb (a b : expr) {struct a} : bool :=
  let list_eqb :=
    (fix go (l m : list expr) {struct l} : bool :=
       match l, m with
       | [], [] => true
       | x :: r, y :: s => expr_eqb x y && go r s
       | _, _ => false
       end) in
  match a, b with
  | ELeaf x, ELeaf y => leaf_eqb x y
  | EAdd l, EAdd m => list_eqb l m
  | EMul l, EMul m => list_eqb l m
  | EPow b1 e1, EPow b2 e2 => expr_eqb b1 b2 && expr_eqb e1 e2
  | EOp n l, EOp n' m => String.eqb n n' && list_eqb l m
  | _, _ => false
  end.

Fixpoint body_eqb (b1 b2 : body) : bool :=
  match b1, b2 with
  | [], [] => true
  | (r, e) :: s, (r', e') :: s' => String.eqb r r' && expr_eqb e e' && body_eqb s s'
  | _, _ => false
  end.

Definition leaf_rank (a : leaf) : nat :=
  match a with LNum _ _ => 0 | LConst _ => 1 | LCoord _ => 2 | LFun _ _ _ => 3 | LOther _ _ => 4 end.

Definition lex (c d : comparison) : comparison := match c with Eq => d | _ => c end.

Definition leaf_cmp (a b : leaf) : comparison :=
  match a, b with
  | LFun v n s, LFun v' n' s' => lex (Bool.compare v v') (lex (String.compare n n') (String.compare s s'))
  | LConst n, LConst n' => String.compare n n'
  | LCoord n, LCoord n' => String.compare n n'
  | LNum p q, LNum p' q' => lex (Z.compare p p') (Pos.compare q q')
  | LOther c n, LOther c' n' => lex (String.compare c c') (String.compare n n')
  | _, _ => Nat.compare (leaf_rank a) (leaf_rank b)
  end.

Definition expr_rank (a : expr) : nat :=
  match a with ELeaf _ => 0 | EAdd _ => 1 | EMul _ => 2 | EPow _ _ => 3 | EOp _ _ => 4 end.

Fixpoint ecmp (a b : expr) {struct a} : comparison :=
  let lcmp :=
    (fix go (l m : list expr) {struct l} : comparison :=
       match l, m with
       | [], [] => Eq
       | [], _ :: _ => Lt
       | _ :: _, [] => Gt
       | x :: r, y :: s => lex (ecmp x y) (go r s)
       end) in
  match a, b with
  | ELeaf x, ELeaf y => leaf_cmp x y
  | EAdd l, EAdd m => lcmp l m
  | EMul l, EMul m => lcmp l m
  | EPow b1 e1, EPow b2 e2 => lex (ecmp b1 b2) (ecmp e1 e2)
  | EOp n l, EOp n' m => lex (String.compare n n') (lcmp l m)
  | _, _ => Nat.compare (expr_rank a) (expr_rank b)
  end.

(* canonical order of the arguments of commutative nodes: what sympy's Add / Mul and sympde's
   Dot / Inner do to their arguments when an expression is (re)built *)
Definition comm_ops : list string := ["Dot"; "Inner"].
Definition is_comm_op (n : string) : bool := existsb (String.eqb n) comm_ops.

Definition ele (a b : expr) : bool := match ecmp a b with Gt => false | _ => true end.
Fixpoint einsert (x : expr) (l : list expr) : list expr :=
  match l with
  | [] => [x]
  | y :: r => if ele x y then x :: l else y :: einsert x r
  end.
Definition esort (l : list expr) : list expr := fold_right einsert [] l.

Fixpoint canon (e : expr) : expr :=
  match e with
  | ELeaf _ => e
  | EAdd l => EAdd (esort (map canon l))
  | EMul l => EMul (esort (map canon l))
  | EPow b x => EPow (canon b) (canon x)
  | EOp n l => if is_comm_op n then EOp n (esort (map canon l)) else EOp n (map canon l)
  end.

Fixpoint binsert (x : string * expr) (l : body) : body :=
  match l with
  | [] => [x]
  | y :: r => if String.leb (fst x) (fst y) then x :: l else y :: binsert x r
  end.
Definition canon_body (b : body) : body :=
  fold_right binsert [] (map (fun re => (fst re, canon (snd re))) b).

(* structural equality as Python's == sees two rebuilt (hence canonically ordered) expressions *)
Definition struct_eq (b1 b2 : body) : bool := body_eqb (canon_body b1) (canon_body b2).

(* ------------------------------------------------------------------ substitution *)
Definition dict := list (leaf * expr).

(* Python dict built from a list of pairs: the last binding of a key wins *)
Fixpoint lookup (s : dict) (k : leaf) : option expr :=
  match s with
  | [] => None
  | (k', v) :: r =>
      match lookup r k with
      | Some w => Some w
      | None => if leaf_eqb k k' then Some v else None
      end
  end.

(* expr._xreplace(rule): ONE pass; what is inserted is never looked at again *)
Fixpoint subst_sim (s : dict) (e : expr) : expr :=
  match e with
  | ELeaf l => match lookup s l with Some v => v | None => e end
  | EAdd l => EAdd (map (subst_sim s) l)
  | EMul l => EMul (map (subst_sim s) l)
  | EPow b x => EPow (subst_sim s b) (subst_sim s x)
  | EOp n l => EOp n (map (subst_sim s) l)
  end.

(* for contrast: one substitution after the other (what a loop of subs / xreplace does) *)
Definition subst_seq (s : dict) (e : expr) : expr :=
  fold_left (fun acc kv => subst_sim [kv] acc) s e.

Definition map_body (f : expr -> expr) (b : body) : body := map (fun re => (fst re, f (snd re))) b.

Definition swap (u v : leaf) : dict := [(u, ELeaf v); (v, ELeaf u)].

(* ------------------------------------------------------------------ free variables (by name) *)
Fixpoint leaves (e : expr) : list leaf :=
  match e with
  | ELeaf l => [l]
  | EAdd l | EMul l | EOp _ l => flat_map leaves l
  | EPow b x => leaves b ++ leaves x
  end.
Definition body_leaves (b : body) : list leaf := flat_map (fun re => leaves (snd re)) b.

Definition lmem (k : leaf) (l : list leaf) : bool := existsb (leaf_eqb k) l.
Definition is_fun (l : leaf) : bool := match l with LFun _ _ _ => true | _ => false end.
Definition is_const (l : leaf) : bool := match l with LConst _ => true | _ => false end.
Definition leaf_name (l : leaf) : string :=
  match l with LFun _ n _ | LConst n | LCoord n | LOther _ n => n | LNum _ _ => "" end.

(* BasicForm.fields / .constants / get_free_variables.
   fields = tuple(i for i in atoms if i not in args): `in` on a tuple is decided with == ALONE ([pymem]), so a function
   of the integrands that carries the name of a declared argument and lives in another space is NOT a field *)
Definition pymem (k : leaf) (l : list leaf) : bool := existsb (leaf_pyeq k) l.
Definition fields (a : form) : list leaf :=
  filter (fun l => is_fun l && negb (pymem l (vars a))) (f_atoms a).
Definition constants (a : form) : list leaf := filter is_const (body_leaves (f_body a)).
Definition free_vars (a : form) : list leaf := fields a ++ constants a.

(* {i.name: i for i in fields + constants}[n]: ONE symbol per name, the last one registered *)
Fixpoint find_name (n : string) (l : list leaf) : option leaf :=
  match l with
  | [] => None
  | x :: r =>
      match find_name n r with
      | Some y => Some y
      | None => if String.eqb n (leaf_name x) then Some x else None
      end
  end.

(* ------------------------------------------------------------------ __call__ *)
Inductive parg := PVal (e : expr) | PSeq (l : list expr).     (* is_sequence(arg) ? list(arg) : [arg] *)
Inductive err := ErrArity | ErrUnknownKw | ErrCount.
   (* TypeError of the Python signature | ValueError "not a free variable" | ValueError "expecting n functions" *)
Inductive result := Ok (b : body) | Err (e : err).

Definition as_list (p : parg) : list expr := match p with PVal e => [e] | PSeq l => l end.
Definition as_value (p : parg) : expr := match p with PVal e => e | PSeq l => EOp "Tuple" l end.

Definition values_of (a : form) (pos : list parg) : option (list expr) :=
  match f_kind a with
  | Bilinear => match pos with [tr; te] => Some (as_list tr ++ as_list te)%list | _ => None end
  | Linear => match pos with [p] => Some (as_list p) | _ => Some (map as_value pos) end
  end.

(* _free_variables_subs: {THE free variable registered under the name n: value}, refusing a name that is not free *)
Fixpoint kw_dict (fv : list leaf) (kw : list (string * expr)) : option dict :=
  match kw with
  | [] => Some []
  | (n, v) :: r =>
      match find_name n fv, kw_dict fv r with
      | Some var, Some d => Some ((var, v) :: d)
      | _, _ => None
      end
  end.

(* len(trials) == len(variables[0]) and len(tests) == len(variables[1])   /   len(values) == len(variables) *)
Definition count_ok (a : form) (pos : list parg) : bool :=
  match f_kind a with
  | Bilinear =>
      match pos with
      | [tr; te] => Nat.eqb (length (as_list tr)) (length (f_trials a)) &&
                    Nat.eqb (length (as_list te)) (length (f_tests a))
      | _ => true
      end
  | Linear =>
      match values_of a pos with
      | Some vals => Nat.eqb (length vals) (length (vars a))
      | None => true
      end
  end.

(* __call__ (after the repairs 8f04492, 8cb0139): the keyword dictionary is built first (unknown name => ValueError),
   the numbers of values are checked (ValueError), then subs.update(zip(variables, values)) and ONE xreplace of
   self.expr with the merged dictionary.  [fv] = the free variables, [kd] = the keyword dictionary builder *)
Definition call_with (fv : list leaf) (kd : list leaf -> list (string * expr) -> option dict)
                     (a : form) (pos : list parg) (kw : list (string * expr)) : result :=
  match values_of a pos with
  | None => Err ErrArity
  | Some vals =>
      match kd fv kw with
      | None => Err ErrUnknownKw
      | Some d =>
          if count_ok a pos
          then Ok (map_body (subst_sim (d ++ combine (vars a) vals)) (f_body a))
          else Err ErrCount
      end
  end.
Definition call (a : form) (pos : list parg) (kw : list (string * expr)) : result :=
  call_with (free_vars a) kw_dict a pos kw.

(* BasicForm._update_free_variables(name=value, ...): the keyword substitution alone, one xreplace with the whole dictionary *)
Definition update_free_variables (a : form) (kw : list (string * expr)) : result :=
  match kw_dict (free_vars a) kw with
  | None => Err ErrUnknownKw
  | Some d => Ok (map_body (subst_sim d) (f_body a))
  end.

(* ---- names as identities: what the proposed repair fix-same-name-spaces.patch would do (NOT the code).
   The code decides three things with == alone, which ignores the space of a function (known findings
   C10-same-name-...): (1) [fields] above; (2) [kw_dict] binds ONE of the free symbols that carry the keyword's name
   (the last one of a set iteration: which one depends on the hash seed); (3) [is_symmetric] below compares
   a(u, v) == a(v, u).  With identities instead: *)
Definition fields_ids (a : form) : list leaf :=
  filter (fun l => is_fun l && negb (lmem l (vars a))) (f_atoms a).
Definition free_vars_ids (a : form) : list leaf := fields_ids a ++ constants a.
Definition named (n : string) (l : list leaf) : list leaf := filter (fun x => String.eqb n (leaf_name x)) l.
Fixpoint kw_dict_all (fv : list leaf) (kw : list (string * expr)) : option dict :=
  match kw with
  | [] => Some []
  | (n, v) :: r =>
      match named n fv, kw_dict_all fv r with
      | (_ :: _) as xs, Some d => Some (map (fun x => (x, v)) xs ++ d)
      | _, _ => None
      end
  end.
Definition call_ids (a : form) (pos : list parg) (kw : list (string * expr)) : result :=
  call_with (free_vars_ids a) kw_dict_all a pos kw.

(* for contrast (what a "do not replace an argument by itself" shortcut written with != would do): the pairs
   (old, new) with old == new are dropped from the dictionary; == ignores the space *)
Definition val_pyeq (l : leaf) (v : expr) : bool := match v with ELeaf l' => leaf_pyeq l l' | _ => false end.
Definition call_skip_equal (a : form) (pos : list parg) (kw : list (string * expr)) : result :=
  match values_of a pos with
  | None => Err ErrArity
  | Some vals =>
      match kw_dict (free_vars a) kw with
      | None => Err ErrUnknownKw
      | Some d =>
          if count_ok a pos
          then Ok (map_body (subst_sim (d ++ filter (fun kv => negb (val_pyeq (fst kv) (snd kv))) (combine (vars a) vals)))
                            (f_body a))
          else Err ErrCount
      end
  end.

(* historical: the code before the repairs - one xreplace per keyword in the order given, then a second
   xreplace for the arguments with dict(zip(variables, values)), no check of the number of values *)
Fixpoint update_free (fv : list leaf) (kw : list (string * expr)) (b : body) : result :=
  match kw with
  | [] => Ok b
  | (n, v) :: r =>
      match find_name n fv with
      | None => Err ErrUnknownKw
      | Some var => update_free fv r (map_body (subst_sim [(var, v)]) b)
      end
  end.

Definition call_before_fix (a : form) (pos : list parg) (kw : list (string * expr)) : result :=
  match values_of a pos with
  | None => Err ErrArity
  | Some vals =>
      match update_free (free_vars a) kw (f_body a) with
      | Err e => Err e
      | Ok b => Ok (map_body (subst_sim (combine (vars a) vals)) b)
      end
  end.

(* == alone: the spaces of the functions are not looked at *)
Definition erase_leaf (l : leaf) : leaf := match l with LFun v n _ => LFun v n "" | _ => l end.
Fixpoint erase (e : expr) : expr :=
  match e with
  | ELeaf l => ELeaf (erase_leaf l)
  | EAdd l => EAdd (map erase l)
  | EMul l => EMul (map erase l)
  | EPow b x => EPow (erase b) (erase x)
  | EOp n l => EOp n (map erase l)
  end.
Definition struct_pyeq (b1 b2 : body) : bool := struct_eq (map_body erase b1) (map_body erase b2).

(* BilinearForm.is_symmetric:  self(left, right) == self(right, left)   (== alone) *)
Definition is_symmetric (a : form) : bool :=
  match f_kind a with
  | Linear => false
  | Bilinear =>
      match call a [PSeq (map ELeaf (f_trials a)); PSeq (map ELeaf (f_tests a))] [],
            call a [PSeq (map ELeaf (f_tests a)); PSeq (map ELeaf (f_trials a))] [] with
      | Ok x, Ok y => struct_pyeq x y
      | _, _ => false
      end
  end.

(* the proposed repair: equal as dictionary keys (== and equal hashes), spaces included *)
Definition is_symmetric_ids (a : form) : bool :=
  match f_kind a with
  | Linear => false
  | Bilinear =>
      match call a [PSeq (map ELeaf (f_trials a)); PSeq (map ELeaf (f_tests a))] [],
            call a [PSeq (map ELeaf (f_tests a)); PSeq (map ELeaf (f_trials a))] [] with
      | Ok x, Ok y => struct_eq x y
      | _, _ => false
      end
  end.

Definition result_eqb (r s : result) : bool :=
  match r, s with
  | Ok x, Ok y => struct_eq x y
  | Err ErrArity, Err ErrArity => true
  | Err ErrUnknownKw, Err ErrUnknownKw => true
  | Err ErrCount, Err ErrCount => true
  | _, _ => false
  end.

(* ------------------------------------------------------------------ denotational semantics *)
(* Operator nodes, Add, Mul, Pow are interpreted by arbitrary functions (those of commutative
   nodes being invariant under permutation of the arguments, which is what the canonical order
   relies on); the integral over a region by an arbitrary functional, the sum of integrals by an
   arbitrary commutative operation.  An environment gives a value to every leaf. *)
Record interp := {
  V : Type; M : Type;
  addv : list V -> V; mulv : list V -> V; powv : V -> V -> V; opv : string -> list V -> V;
  intv : string -> V -> M; madd : M -> M -> M; m0 : M;
  addv_perm : forall l l', Permutation l l' -> addv l = addv l';
  mulv_perm : forall l l', Permutation l l' -> mulv l = mulv l';
  opv_perm : forall n l l', is_comm_op n = true -> Permutation l l' -> opv n l = opv n l';
  madd_comm : forall x y, madd x y = madd y x;
  madd_assoc : forall x y z, madd x (madd y z) = madd (madd x y) z }.

Fixpoint sem (I : interp) (rho : leaf -> V I) (e : expr) : V I :=
  match e with
  | ELeaf l => rho l
  | EAdd l => addv I (map (sem I rho) l)
  | EMul l => mulv I (map (sem I rho) l)
  | EPow b x => powv I (sem I rho b) (sem I rho x)
  | EOp n l => opv I n (map (sem I rho) l)
  end.

Definition sem_body (I : interp) (rho : leaf -> V I) (b : body) : M I :=
  fold_right (fun re acc => madd I (intv I (fst re) (sem I rho (snd re))) acc) (m0 I) b.

Definition sem_result (I : interp) (rho : leaf -> V I) (r : result) : option (M I) :=
  match r with Ok b => Some (sem_body I rho b) | Err _ => None end.

(* the environment in which every key of s is bound to the value of its replacement in rho *)
Definition upd (I : interp) (rho : leaf -> V I) (s : dict) : leaf -> V I :=
  fun l => match lookup s l with Some v => sem I rho v | None => rho l end.

(* ------------------------------------------------------------------ terminal level (lowered integrands) *)
(* simultaneous substitution on terminal expressions: a derivative atom of a replaced function is
   the same derivative of the replacement (used to compare the lowered integrands with tequiv) *)
Fixpoint tDn (lg : bool) (i n : nat) (t : texpr) : option texpr :=
  match n with
  | 0 => Some t
  | S k => match tDn lg i k t with Some t' => tD lg i t' | None => None end
  end.
Fixpoint tDal (lg : bool) (i : nat) (al : list nat) (t : texpr) : option texpr :=
  match al with
  | [] => Some t
  | n :: r => match tDal lg (S i) r t with Some t' => tDn lg i n t' | None => None end
  end.
Fixpoint sassoc {A} (n : string) (l : list (string * A)) : option A :=
  match l with
  | [] => None
  | (k, v) :: r => match sassoc n r with Some w => Some w | None => if String.eqb n k then Some v else None end
  end.

Definition tsubst_atom (sf : list (string * list texpr)) (sc : list (string * texpr)) (a : atom) : option texpr :=
  match a with
  | AFld lg f c s al =>
      match sassoc f sf with
      | None => Some (TAt a)
      | Some comps =>
          match nth_error comps c, s with
          | Some t, SNone => tDal lg 0 al t
          | _, _ => None
          end
      end
  | AConst n => match sassoc n sc with Some t => Some t | None => Some (TAt a) end
  | _ => Some (TAt a)
  end.

Fixpoint tsubst (sf : list (string * list texpr)) (sc : list (string * texpr)) (t : texpr) : option texpr :=
  match t with
  | TZ _ | TQ _ _ => Some t
  | TAt a => tsubst_atom sf sc a
  | TAdd a b => omap2 TAdd (tsubst sf sc a) (tsubst sf sc b)
  | TSub a b => omap2 TSub (tsubst sf sc a) (tsubst sf sc b)
  | TMul a b => omap2 TMul (tsubst sf sc a) (tsubst sf sc b)
  | TDiv a b => omap2 TDiv (tsubst sf sc a) (tsubst sf sc b)
  | TOpp a => option_map TOpp (tsubst sf sc a)
  | TInv a => option_map TInv (tsubst sf sc a)
  | TPowN a n => option_map (fun x => TPowN x n) (tsubst sf sc a)
  | TFn f a => option_map (TFn f) (tsubst sf sc a)
  | TPowG b e => omap2 TPowG (tsubst sf sc b) (tsubst sf sc e)
  end.
