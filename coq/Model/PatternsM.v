(* Executable models for C20 (name patterns).
     expand_A   : sympde.core.utils.expand_name_patterns            (/repo/sympde/core/utils.py)
     symbols_B  : the name logic of sympy.core.symbol.symbols 1.9   (installed sympy)
     element_of / elements_of : sympde.topology.space               (/repo/sympde/topology/space.py)
   Strings are [list ascii] inside (Python str restricted to code points < 256; the
   correspondence is claimed for 7-bit strings, for which three unused marker
   characters always exist below 256), names in results are Coq [string]s.
   No proofs here: the model still runs when a proof breaks. *)
From Coq Require Import String Ascii List Bool Arith PeanoNat ZArith NArith.
Import ListNotations.
Open Scope char_scope.
Open Scope nat_scope.
Open Scope list_scope.

Definition str := list ascii.

Inductive err := ValueErr | TypeErr | NotImplErr | ModelLimit.
Inductive result (A : Type) := Ok (a : A) | Err (e : err).
Arguments Ok {A} a.
Arguments Err {A} e.

(* ------------------------------------------------------------------------- *)
(*  Part 1.  Python built-ins used by both functions                          *)
(* ------------------------------------------------------------------------- *)
Definition code (c : ascii) : nat := nat_of_ascii c.
Definition ceq (a b : ascii) : bool := Ascii.eqb a b.
Definition is_digit (c : ascii) : bool := (48 <=? code c) && (code c <=? 57).
Definition is_lower (c : ascii) : bool := (97 <=? code c) && (code c <=? 122).
Definition is_upper (c : ascii) : bool := (65 <=? code c) && (code c <=? 90).
Definition is_letter (c : ascii) : bool := is_lower c || is_upper c.
(* str.isspace / the separator set of str.split() and str.strip(), code points < 256 *)
Definition is_space (c : ascii) : bool :=
  let n := code c in
  ((9 <=? n) && (n <=? 13)) || ((28 <=? n) && (n <=? 32)) || (n =? 133) || (n =? 160).

Fixpoint str_eqb (a b : str) : bool :=
  match a, b with
  | [], [] => true
  | x :: r, y :: s => ceq x y && str_eqb r s
  | _, _ => false
  end.
Definition is_empty {A} (l : list A) : bool := match l with [] => true | _ => false end.

Fixpoint mem (c : ascii) (s : str) : bool :=
  match s with [] => false | x :: r => ceq c x || mem c r end.

(* s.startswith(p) *)
Fixpoint prefix (p s : str) : bool :=
  match p, s with
  | [], _ => true
  | x :: p', y :: s' => ceq x y && prefix p' s'
  | _ :: _, [] => false
  end.
(* sub in s *)
Fixpoint contains (sub s : str) : bool :=
  prefix sub s || match s with [] => false | _ :: r => contains sub r end.
(* s.index(sub) : None stands for ValueError *)
Fixpoint str_index (s sub : str) : option nat :=
  if prefix sub s then Some 0 else
  match s with [] => None | _ :: r => option_map S (str_index r sub) end.

Definition last_char (s : str) : option ascii :=
  match rev s with [] => None | c :: _ => Some c end.
Definition endswith_char (s : str) (c : ascii) : bool :=
  match last_char s with Some x => ceq x c | None => false end.
Definition startswith_char (s : str) (c : ascii) : bool :=
  match s with x :: _ => ceq x c | [] => false end.

(* s.lstrip() / s.rstrip() / s.strip() *)
Fixpoint lstrip (s : str) : str :=
  match s with c :: r => if is_space c then lstrip r else s | [] => [] end.
Definition rstrip (s : str) : str := rev (lstrip (rev s)).
Definition strip (s : str) : str := rstrip (lstrip s).

(* s.split(sep) for a one-character separator: never returns the empty list *)
Fixpoint split_char (sep : ascii) (s : str) : list str :=
  match s with
  | [] => [[]]
  | c :: r =>
      if ceq c sep then [] :: split_char sep r
      else match split_char sep r with
           | h :: t => (c :: h) :: t
           | [] => [[c]]
           end
  end.

(* s.split(): runs of whitespace separate, no empty pieces *)
Fixpoint split_ws_aux (s cur : str) : list str :=
  match s with
  | [] => if is_empty cur then [] else [rev cur]
  | c :: r =>
      if is_space c
      then (if is_empty cur then split_ws_aux r [] else rev cur :: split_ws_aux r [])
      else split_ws_aux r (c :: cur)
  end.
Definition split_ws (s : str) : list str := split_ws_aux s [].

(* s.replace(old, new), old non-empty: left to right, non-overlapping *)
Fixpoint replace_aux (old new s : str) (skip : nat) : str :=
  match s with
  | [] => []
  | c :: r =>
      match skip with
      | S k => replace_aux old new r k
      | 0 => if prefix old s then new ++ replace_aux old new r (length old - 1)
             else c :: replace_aux old new r 0
      end
  end.
Definition replace (old new s : str) : str := replace_aux old new s 0.

(* int(s), base 10, for a str: optional surrounding whitespace, optional sign,
   digits with single underscores between them.  None stands for ValueError. *)
Definition digit_val (c : ascii) : Z := Z.of_nat (code c - 48).
Fixpoint digits_us (s : str) (acc : Z) (prev_us : bool) : option Z :=
  match s with
  | [] => if prev_us then None else Some acc
  | c :: r =>
      if is_digit c then digits_us r (10 * acc + digit_val c)%Z false
      else if ceq c "_" then (if prev_us then None else digits_us r acc true)
      else None
  end.
Definition pyint (s0 : str) : option Z :=
  let s := strip s0 in
  let '(neg, s) := match s with
                   | c :: r => if ceq c "-" then (true, r) else if ceq c "+" then (false, r) else (false, s)
                   | [] => (false, s)
                   end in
  match s with
  | c :: _ => if is_digit c
              then match digits_us s 0%Z false with
                   | Some n => Some (if neg then (- n)%Z else n)
                   | None => None
                   end
              else None
  | [] => None
  end.

(* str(n) for an int *)
Fixpoint dec_digits (fuel : nat) (n : N) (acc : str) : str :=
  match fuel with
  | 0 => acc
  | S f => let d := ascii_of_N (48 + N.modulo n 10) in
           if N.eqb (N.div n 10) 0 then d :: acc else dec_digits f (N.div n 10) (d :: acc)
  end.
Definition str_of_N (n : N) : str := dec_digits (S (N.size_nat n)) n [].
Definition str_of_Z (z : Z) : str :=
  match z with
  | Z0 => str_of_N 0
  | Zpos p => str_of_N (Npos p)
  | Zneg p => "-" :: str_of_N (Npos p)
  end.
(* list(range(a, b)) *)
Definition zrange (a b : Z) : list Z :=
  map (fun k => (a + Z.of_nat k)%Z) (seq 0 (Z.to_nat (b - a))).

(* string.ascii_letters *)
Definition ascii_letters : str :=
  list_ascii_of_string "abcdefghijklmnopqrstuvwxyzABCDEFGHIJKLMNOPQRSTUVWXYZ".

(* ---- the regular expression  _range = ([0-9]*:[0-9]+|[a-zA-Z]?:[a-zA-Z])  ------- *)
Fixpoint span (p : ascii -> bool) (s : str) : str * str :=
  match s with
  | c :: r => if p c then let (a, b) := span p r in (c :: a, b) else ([], s)
  | [] => ([], [])
  end.
Definition is_colon (c : ascii) : bool := ceq c ":".

(* _range.match at the start of s: Some (matched text, rest).  Hand-written scanner with
   Python's semantics: the first alternative that can match wins; inside it the
   quantifiers are greedy (giving digits back cannot help: the next character must be ':'). *)
Definition match_range (s : str) : option (str * str) :=
  let alt1 :=
    let (d1, r1) := span is_digit s in
    match r1 with
    | c :: r2 =>
        if is_colon c then
          let (d2, r3) := span is_digit r2 in
          if is_empty d2 then None else Some (d1 ++ c :: d2, r3)
        else None
    | [] => None
    end in
  match alt1 with
  | Some x => Some x
  | None =>
      let with_letter :=
        match s with
        | l :: c :: e :: r => if is_letter l && is_colon c && is_letter e then Some ([l; c; e], r) else None
        | _ => None
        end in
      match with_letter with
      | Some x => Some x
      | None =>
          match s with
          | c :: e :: r => if is_colon c && is_letter e then Some ([c; e], r) else None
          | _ => None
          end
      end
  end.

(* re.split for a pattern that is one capturing group and never matches the empty string:
   [text, match, text, match, ..., text] with leftmost matches *)
Fixpoint re_split_aux (matcher : str -> option (str * str)) (fuel : nat) (s acc : str) : list str :=
  match fuel with
  | 0 => [rev acc ++ s]
  | S f =>
      match s with
      | [] => [rev acc]
      | c :: r =>
          match matcher s with
          | Some (m, rest) => rev acc :: m :: re_split_aux matcher f rest []
          | None => re_split_aux matcher f r (c :: acc)
          end
      end
  end.
Definition re_split (matcher : str -> option (str * str)) (s : str) : list str :=
  re_split_aux matcher (S (length s)) s [].
Definition range_split (s : str) : list str := re_split match_range s.

(* sympy.utilities.iterables.cartes = itertools.product, followed by ''.join *)
Fixpoint cartes_join (ls : list (list str)) : list str :=
  match ls with
  | [] => [[]]
  | l :: r => flat_map (fun x => map (fun y => x ++ y) (cartes_join r)) l
  end.

Fixpoint set_nth {A} (k : nat) (v : A) (l : list A) : list A :=
  match l, k with
  | [], _ => []
  | _ :: r, 0 => v :: r
  | x :: r, S k' => x :: set_nth k' v r
  end.

(* ------------------------------------------------------------------------- *)
(*  Part 2.  The body shared by the two functions (the texts are identical up  *)
(*           to `cls(name, **args)` around every produced name)               *)
(* ------------------------------------------------------------------------- *)

(* marker = 0; literals = [r'\,', r'\:', r'\ ']; for ...: if lit in names: while chr(marker) in names ... *)
Fixpoint find_marker (fuel marker : nat) (names : str) : option nat :=
  match fuel with
  | 0 => None
  | S f => if 256 <=? marker then None
           else if mem (ascii_of_nat marker) names then find_marker f (S marker) names
           else Some marker
  end.
Definition lits := list (ascii * str).
Definition mark_step (st : option (str * nat * lits)) (l : ascii) : option (str * nat * lits) :=
  match st with
  | None => None
  | Some (names, marker, literals) =>
      let lit := ["\"; l] in
      if contains lit names then
        match find_marker 257 marker names with
        | None => None            (* no unused character below 256: outside the model *)
        | Some m =>
            let lit_char := ascii_of_nat m in
            Some (replace lit [lit_char] names, S m, literals ++ [(lit_char, [l])])
        end
      else st
  end.
Definition mark_literals (names : str) : option (str * lits) :=
  match fold_left mark_step [","; ":"; " "] (Some (names, 0, [])) with
  | None => None
  | Some (names, _, literals) => Some (names, literals)
  end.
(* def literal(s): if literals: for c, l in literals: s = s.replace(c, l) *)
Definition literal (literals : lits) (s : str) : str :=
  fold_left (fun s cl => replace [fst cl] (snd cl) s) literals s.

(* for i in range(len(names) - 1, -1, -1): names[i: i + 1] = names[i].split() *)
Definition ws_step (names : list str) (i : nat) : list str :=
  firstn i names ++ split_ws (nth i names []) ++ skipn (S i) names.
Definition ws_loop (names : list str) : list str :=
  fold_left ws_step (rev (seq 0 (length names))) names.

(* for i in range(len(split) - 1): if i and ':' in split[i] and split[i] != ':' and
       split[i - 1].endswith('(') and split[i + 1].startswith(')'): strip one '(' and one ')' *)
Definition paren_step (split : list str) (i : nat) : list str :=
  let si := nth i split [] in
  let sp := nth (i - 1) split [] in
  let sn := nth (i + 1) split [] in
  if negb (i =? 0) && mem ":" si && negb (str_eqb si [":"]) &&
     endswith_char sp "(" && startswith_char sn ")"
  then set_nth (i + 1) (tl sn) (set_nth (i - 1) (removelast sp) split)
  else split.
Definition strip_parens (split : list str) : list str :=
  fold_left paren_step (seq 0 (length split - 1)) split.

(* body of `for i, s in enumerate(split)` for one s *)
Inductive piece_out := PBreak | PItems (l : list str).
Definition expand_piece (s : str) : result piece_out :=
  if mem ":" s then
    if endswith_char s ":" then Err ValueErr                      (* missing end range *)
    else match split_char ":" s with
         | [a; b] =>
             let items :=
               if (match last_char b with Some c => is_digit c | None => false end) then
                 match (if is_empty a then Some 0%Z else pyint a) with
                 | None => Err ValueErr
                 | Some ia => match pyint b with
                              | None => Err ValueErr
                              | Some ib => Ok (map str_of_Z (zrange ia ib))
                              end
                 end
               else
                 let a := if is_empty a then ["a"] else a in
                 match str_index ascii_letters a with
                 | None => Err ValueErr
                 | Some ia => match str_index ascii_letters b with
                              | None => Err ValueErr
                              | Some ib => Ok (map (fun c => [nth c ascii_letters "?"]) (seq ia (ib + 1 - ia)))
                              end
                 end in
             match items with
             | Err e => Err e
             | Ok l => if is_empty l then Ok PBreak else Ok (PItems l)
             end
         | _ => Err ValueErr                                       (* a, b = s.split(':') *)
         end
  else Ok (PItems [s]).

(* the for ... else over split: None = left by `break` *)
Fixpoint expand_pieces (split : list str) : result (option (list (list str))) :=
  match split with
  | [] => Ok (Some [])
  | s :: r =>
      match expand_piece s with
      | Err e => Err e
      | Ok PBreak => Ok None
      | Ok (PItems l) =>
          match expand_pieces r with
          | Err e => Err e
          | Ok None => Ok None
          | Ok (Some ls) => Ok (Some (l :: ls))
          end
      end
  end.

(* body of `for name in names`; state = (result, seq) *)
Definition name_step (literals : lits) (st : list str * bool) (name : str) : result (list str * bool) :=
  let (res, seq) := st in
  if is_empty name then Err ValueErr                               (* missing symbol *)
  else if negb (mem ":" name) then Ok (res ++ [literal literals name], seq)
  else
    let split := strip_parens (range_split name) in
    match expand_pieces split with
    | Err e => Err e
    | Ok None => Ok (res, seq)
    | Ok (Some ls) =>
        let names := match ls with [l] => l | _ => cartes_join ls end in
        Ok (res ++ (if is_empty literals then names else map (literal literals) names), true)
    end.
Fixpoint names_loop (literals : lits) (names : list str) (st : list str * bool) : result (list str * bool) :=
  match names with
  | [] => Ok st
  | n :: r => match name_step literals st n with
              | Err e => Err e
              | Ok st' => names_loop literals r st'
              end
  end.

(* ------------------------------------------------------------------------- *)
(*  Part 3.  Values                                                           *)
(* ------------------------------------------------------------------------- *)
Inductive ckind := CTuple | CList | CSet.
(* the `names` argument: a str, a list / tuple / set of such, or an object that is neither *)
Inductive pat := PStr (s : string) | PSeq (k : ckind) (l : list pat) | PBad.
(* the value returned: one bare name, or a container *)
Inductive out := OName (s : string) | OSeq (k : ckind) (l : list out).
(* the `seq` keyword: not passed, None, a bool, any other object (with its truth value) *)
Inductive seqarg := SeqAbsent | SeqNone | SeqBool (b : bool) | SeqOther (truthy : bool).

Definition name_of (s : str) : out := OName (string_of_list_ascii s).

(* if not seq and len(result) <= 1: (() | result[0])   else tuple(result) *)
Definition pack (res : list str) (seq : bool) : out :=
  if negb seq && (length res <=? 1)
  then match res with [] => OSeq CTuple [] | x :: _ => name_of x end
  else OSeq CTuple (map name_of res).

(* ------------------------------------------------------------------------- *)
(*  Part 4.  expand_A : sympde.core.utils.expand_name_patterns                *)
(* ------------------------------------------------------------------------- *)
Definition expand_str_A (names0 : str) (seq : seqarg) : result out :=
  match mark_literals names0 with
  | None => Err ModelLimit
  | Some (names, literals) =>
      let names := strip names in
      let as_seq := endswith_char names "," in
      let names := if as_seq then rstrip (removelast names) else names in
      if is_empty names then Err ValueErr else                     (* no symbols given *)
      let names := map strip (split_char "," names) in
      if negb (forallb (fun n => negb (is_empty n)) names) then Err ValueErr else
      let names := ws_loop names in
      (* if seq is None: seq = as_seq  else: if not isinstance(seq, bool): raise TypeError *)
      match (match seq with
             | SeqAbsent | SeqNone => Ok as_seq
             | SeqBool b => Ok b
             | SeqOther _ => Err TypeErr
             end) with
      | Err e => Err e
      | Ok seq =>
          match names_loop literals names ([], seq) with
          | Err e => Err e
          | Ok (res, seq) => Ok (pack res seq)
          end
      end
  end.

Fixpoint expand_A (p : pat) (seq : seqarg) : result out :=
  match p with
  | PStr s => expand_str_A (list_ascii_of_string s) seq
  | PBad => Err TypeErr                                            (* for name in names *)
  | PSeq k l =>
      (* recursive call on list of names, seq is ignored: expand_name_patterns(name) *)
      match (fix go (l : list pat) : result (list out) :=
               match l with
               | [] => Ok []
               | q :: r => match expand_A q SeqAbsent with
                           | Err e => Err e
                           | Ok o => match go r with Err e => Err e | Ok os => Ok (o :: os) end
                           end
               end) l with
      | Err e => Err e
      | Ok os => Ok (OSeq k os)                                    (* type(names)(result) *)
      end
  end.

(* ------------------------------------------------------------------------- *)
(*  Part 5.  symbols_B : sympy.core.symbol.symbols (names of the Symbols)      *)
(* ------------------------------------------------------------------------- *)
Definition symbols_str_B (names0 : str) (seq : seqarg) : result out :=
  match mark_literals names0 with
  | None => Err ModelLimit
  | Some (names, literals) =>
      let names := strip names in
      let as_seq := endswith_char names "," in
      let names := if as_seq then rstrip (removelast names) else names in
      if is_empty names then Err ValueErr else
      let names := map strip (split_char "," names) in
      if negb (forallb (fun n => negb (is_empty n)) names) then Err ValueErr else
      let names := ws_loop names in
      (* seq = args.pop('seq', as_seq) : any object, only its truth value is used *)
      let seq := match seq with
                 | SeqAbsent => as_seq
                 | SeqNone => false
                 | SeqBool b => b
                 | SeqOther t => t
                 end in
      match names_loop literals names ([], seq) with
      | Err e => Err e
      | Ok (res, seq) => Ok (pack res seq)
      end
  end.

Fixpoint symbols_B (p : pat) (seq : seqarg) : result out :=
  match p with
  | PStr s => symbols_str_B (list_ascii_of_string s) seq
  | PBad => Err TypeErr
  | PSeq k l =>
      (* result.append(symbols(name, **args)) : `seq` is still in args *)
      match (fix go (l : list pat) : result (list out) :=
               match l with
               | [] => Ok []
               | q :: r => match symbols_B q seq with
                           | Err e => Err e
                           | Ok o => match go r with Err e => Err e | Ok os => Ok (o :: os) end
                           end
               end) l with
      | Err e => Err e
      | Ok os => Ok (OSeq k os)
      end
  end.

(* ------------------------------------------------------------------------- *)
(*  Part 6.  element_of / elements_of                                          *)
(* ------------------------------------------------------------------------- *)
Inductive skind := KScalar | KVector.
(* a ScalarFunctionSpace / VectorFunctionSpace (identified by its name), or a ProductSpace *)
Inductive space := SBasic (k : skind) (name : string) | SProduct (comps : list space).
(* ProductSpace.__new__: components that are products contribute their own components *)
Definition product_new (l : list space) : space :=
  SProduct (flat_map (fun v => match v with SProduct ws => ws | _ => [v] end) l).

(* a ScalarFunction / VectorFunction with its name and its space, or a container *)
Inductive elt := EFun (k : skind) (name : string) (sp : space) | ESeq (k : ckind) (l : list elt).

(* space.element(name) *)
Definition element (sp : space) (name : string) : result elt :=
  match sp with
  | SBasic k _ => Ok (EFun k name sp)
  | SProduct _ => Err NotImplErr
  end.

Fixpoint rec_element_of (sp : space) (names : out) {struct names} : result elt :=
  match names with
  | OName n => element sp n
  | OSeq k l =>
      match sp with
      | SProduct spaces =>
          (* if len(names) != len(spaces): raise ValueError   (repair f3da127) *)
          if negb (length l =? length spaces) then Err ValueErr else
          (* [_recursive_element_of(s, n) for s, n in zip(spaces, names)] *)
          match (fix go (ss : list space) (l : list out) {struct l} : result (list elt) :=
                   match ss, l with
                   | s :: ss', n :: l' =>
                       match rec_element_of s n with
                       | Err e => Err e
                       | Ok x => match go ss' l' with Err e => Err e | Ok xs => Ok (x :: xs) end
                       end
                   | _, _ => Ok []
                   end) spaces l with
          | Err e => Err e
          | Ok xs => Ok (ESeq k xs)
          end
      | SBasic _ _ => Err ValueErr      (* To create multiple elements of same space, use 'elements_of' *)
      end
  end.

Fixpoint rec_elements_of (sp : space) (names : out) {struct names} : result elt :=
  match names with
  | OName n => element sp n
  | OSeq k l =>
      match sp with
      | SProduct spaces =>
          if negb (length l =? length spaces) then Err ValueErr else
          match (fix go (ss : list space) (l : list out) {struct l} : result (list elt) :=
                   match ss, l with
                   | s :: ss', n :: l' =>
                       match rec_elements_of s n with
                       | Err e => Err e
                       | Ok x => match go ss' l' with Err e => Err e | Ok xs => Ok (x :: xs) end
                       end
                   | _, _ => Ok []
                   end) spaces l with
          | Err e => Err e
          | Ok xs => Ok (ESeq k xs)
          end
      | SBasic _ _ =>
          (* [_recursive_elements_of(space, n) for n in names] *)
          match (fix go (l : list out) : result (list elt) :=
                   match l with
                   | [] => Ok []
                   | n :: l' =>
                       match rec_elements_of sp n with
                       | Err e => Err e
                       | Ok x => match go l' with Err e => Err e | Ok xs => Ok (x :: xs) end
                       end
                   end) l with
          | Err e => Err e
          | Ok xs => Ok (ESeq k xs)
          end
      end
  end.

Definition element_of (sp : space) (name : pat) : result elt :=
  match expand_A name SeqAbsent with
  | Err e => Err e
  | Ok names => rec_element_of sp names
  end.
Definition elements_of (sp : space) (names : pat) : result elt :=
  match expand_A names (SeqBool true) with
  | Err e => Err e
  | Ok names => rec_elements_of sp names
  end.

(* ------------------------------------------------------------------------- *)
(*  Part 7.  boolean equalities used by the generated case files              *)
(* ------------------------------------------------------------------------- *)
Definition ckind_beq (a b : ckind) : bool :=
  match a, b with CTuple, CTuple | CList, CList | CSet, CSet => true | _, _ => false end.
Definition err_beq (a b : err) : bool :=
  match a, b with
  | ValueErr, ValueErr | TypeErr, TypeErr | NotImplErr, NotImplErr | ModelLimit, ModelLimit => true
  | _, _ => false
  end.
Definition skind_beq (a b : skind) : bool :=
  match a, b with KScalar, KScalar | KVector, KVector => true | _, _ => false end.

(* equality of returned values; the members of a set are compared as a set *)
Fixpoint out_beq (a b : out) {struct a} : bool :=
  match a, b with
  | OName s, OName t => String.eqb s t
  | OSeq k l, OSeq k' l' =>
      ckind_beq k k' &&
      match k with
      | CSet => forallb (fun x => existsb (out_beq x) l') l &&
                forallb (fun y => existsb (fun x => out_beq x y) l) l'
      | _ => (fix go (l l' : list out) : bool :=
                match l, l' with
                | [], [] => true
                | x :: r, y :: r' => out_beq x y && go r r'
                | _, _ => false
                end) l l'
      end
  | _, _ => false
  end.
Definition res_out_beq (a b : result out) : bool :=
  match a, b with
  | Ok x, Ok y => out_beq x y
  | Err e, Err f => err_beq e f
  | _, _ => false
  end.

Fixpoint space_beq (a b : space) : bool :=
  match a, b with
  | SBasic k n, SBasic k' n' => skind_beq k k' && String.eqb n n'
  | SProduct l, SProduct l' =>
      (fix go (l l' : list space) : bool :=
         match l, l' with
         | [], [] => true
         | x :: r, y :: r' => space_beq x y && go r r'
         | _, _ => false
         end) l l'
  | _, _ => false
  end.
Fixpoint elt_beq (a b : elt) : bool :=
  match a, b with
  | EFun k n s, EFun k' n' s' => skind_beq k k' && String.eqb n n' && space_beq s s'
  | ESeq k l, ESeq k' l' =>
      ckind_beq k k' &&
      (fix go (l l' : list elt) : bool :=
         match l, l' with
         | [], [] => true
         | x :: r, y :: r' => elt_beq x y && go r r'
         | _, _ => false
         end) l l'
  | _, _ => false
  end.
Definition res_elt_beq (a b : result elt) : bool :=
  match a, b with
  | Ok x, Ok y => elt_beq x y
  | Err e, Err f => err_beq e f
  | _, _ => false
  end.

(* helpers for the case files: a string given by its character codes *)
Definition sc (l : list nat) : string := string_of_list_ascii (map ascii_of_nat l).

(* ------------------------------------------------------------------------- *)
(*  Part 8.  Reference semantics of Python's `re` for the fragment used by     *)
(*           _range (a backtracking matcher: alternatives in order, greedy     *)
(*           repetition).  match_range above is proved equal to it.            *)
(* ------------------------------------------------------------------------- *)
Inductive re := REps | RChar (p : ascii -> bool) | RCat (a b : re) | RAlt (a b : re) | RStar (a : re).

(* continuation-passing matcher: [k] receives the rest of the string after the part matched so
   far and may refuse it (None), which makes the matcher try its next choice *)
(* greedy repetition: one more iteration of [ma] first (it must consume something), else go on with k *)
Fixpoint star_with (ma : str -> (str -> option str) -> option str) (k : str -> option str)
                   (fuel : nat) (s : str) : option str :=
  match fuel with
  | 0 => k s
  | S f =>
      match ma s (fun s' => if length s' <? length s then star_with ma k f s' else None) with
      | Some x => Some x
      | None => k s
      end
  end.
Fixpoint re_m (r : re) (s : str) (k : str -> option str) {struct r} : option str :=
  match r with
  | REps => k s
  | RChar p => match s with c :: t => if p c then k t else None | [] => None end
  | RCat a b => re_m a s (fun s' => re_m b s' k)
  | RAlt a b => match re_m a s k with Some x => Some x | None => re_m b s k end
  | RStar a => star_with (re_m a) k (length s) s
  end.
(* pattern.match(s): Some (matched text, rest) *)
Definition re_match (r : re) (s : str) : option (str * str) :=
  match re_m r s (fun rest => Some rest) with
  | Some rest => Some (firstn (length s - length rest) s, rest)
  | None => None
  end.

Definition r_digit := RChar is_digit.
Definition r_letter := RChar is_letter.
Definition r_colon := RChar is_colon.
(* ([0-9]*:[0-9]+|[a-zA-Z]?:[a-zA-Z]) *)
Definition range_re : re :=
  RAlt (RCat (RStar r_digit) (RCat r_colon (RCat r_digit (RStar r_digit))))
       (RCat (RAlt r_letter REps) (RCat r_colon r_letter)).

(* ------------------------------------------------------------------------- *)
(*  Part 9.  For the record: _recursive_element_of before the repair f3da127   *)
(*           (no length check: zip() stops at the shorter argument)            *)
(* ------------------------------------------------------------------------- *)
Fixpoint rec_element_of_before_fix (sp : space) (names : out) {struct names} : result elt :=
  match names with
  | OName n => element sp n
  | OSeq k l =>
      match sp with
      | SProduct spaces =>
          match (fix go (ss : list space) (l : list out) {struct l} : result (list elt) :=
                   match ss, l with
                   | s :: ss', n :: l' =>
                       match rec_element_of_before_fix s n with
                       | Err e => Err e
                       | Ok x => match go ss' l' with Err e => Err e | Ok xs => Ok (x :: xs) end
                       end
                   | _, _ => Ok []
                   end) spaces l with
          | Err e => Err e
          | Ok xs => Ok (ESeq k xs)
          end
      | SBasic _ _ => Err ValueErr
      end
  end.
Definition element_of_before_fix (sp : space) (name : pat) : result elt :=
  match expand_A name SeqAbsent with
  | Err e => Err e
  | Ok names => rec_element_of_before_fix sp names
  end.
