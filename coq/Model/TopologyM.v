(* Executable model of the multi-patch topology of sympde (C13, C15):
     sympde/topology/domain.py   NCube / NCubeInterior, Domain.__new__, Domain.get_boundary,
                                 Domain.join, Domain.get_subdomain, Domain.todict, Domain.from_file
     sympde/topology/basic.py    Boundary (join, todict), Interface, Connectivity, Union
     sympde/topology/mapping.py  MappedDomain.__new__ (a mapping applied to a domain)
   The functions follow the Python code arm for arm (same case split, same order of the
   checks, same error class).  No proofs here: the model still runs when a proof breaks. *)
From Coq Require Import String Ascii List Bool Arith PeanoNat ZArith DecimalString.
From V Require Import Core.Canon.
Import ListNotations.
Open Scope string_scope.
Open Scope list_scope.
Local Infix "+++" := String.append (right associativity, at level 60).

(* ------------------------------------------------------------------ errors *)
Inductive err :=
| EAssert    (* AssertionError *)
| EValue     (* ValueError *)
| EType      (* TypeError *)
| EIndex     (* IndexError *)
| EAttr      (* AttributeError *)
| EUnbound   (* UnboundLocalError *)
| EKey       (* KeyError *)
| ENotImpl.  (* outside the modelled fragment *)
Inductive res (A : Type) : Type := Ok (a : A) | Err (e : err).
Arguments Ok {A} a. Arguments Err {A} e.
Definition bind {A B} (r : res A) (f : A -> res B) : res B :=
  match r with Ok a => f a | Err e => Err e end.
Notation "'do' x <- r ; k" := (bind r (fun x => k))
  (at level 200, x name, r at level 100, k at level 200).

(* ------------------------------------------------------------------ patches *)
(* A coordinate bound is an opaque token (the harness passes float.hex of the value):
   the topology code only stores and copies bounds. *)
Definition bound := string.

(* An NCubeInterior.  [p_lname] is the name of the logical n-cube, [p_map] the name of the
   mapping applied to it (None for a plain patch). *)
Record patch := mkPatch {
  p_lname : string; p_map : option string; p_dim : nat;
  p_min : list bound; p_max : list bound }.

(* MappedDomain.__new__, NCubeInterior arm: name = '{}({})'.format(mapping.name, name) *)
Definition pname (p : patch) : string :=
  match p_map p with None => p_lname p | Some m => m +++ "(" +++ p_lname p +++ ")" end.
Definition is_mapped (p : patch) : bool := match p_map p with Some _ => true | None => false end.
(* .logical_domain of a mapped interior *)
Definition lpatch (p : patch) : patch := mkPatch (p_lname p) None (p_dim p) (p_min p) (p_max p).
(* Basic.__eq__ on an (NCube)Interior: class and args = (name,) *)
Definition patch_pyeqb (p q : patch) : bool := String.eqb (pname p) (pname q).

(* ------------------------------------------------------------------ faces *)
(* Boundary(name, domain, axis, ext) of an n-cube patch *)
Record face := mkFace { f_patch : patch; f_axis : nat; f_ext : Z }.

Definition nat_str (n : nat) : string := NilEmpty.string_of_uint (Nat.to_uint n).
(* NCubeInterior.__new__: the counter i runs over  for axis: for ext in [-1, 1] *)
Definition gidx (a : nat) (e : Z) : nat := 2 * a + (if Z.eqb e 1 then 2 else 1).
Definition gamma_name (a : nat) (e : Z) : string := "\Gamma_" +++ nat_str (gidx a e).
(* Boundary._sympystr: '{}_{}'.format(domain, name) *)
Definition face_str (f : face) : string :=
  pname (f_patch f) +++ "_" +++ gamma_name (f_axis f) (f_ext f).
(* Basic.__eq__ on Boundary: args = (name, domain, axis, ext); the name is a function of (axis, ext) *)
Definition face_pyeqb (f g : face) : bool :=
  String.eqb (pname (f_patch f)) (pname (f_patch g)) && Nat.eqb (f_axis f) (f_axis g) && Z.eqb (f_ext f) (f_ext g).
(* .logical_domain of a face of a mapped patch: the face (axis, ext) of the logical patch *)
Definition lface (f : face) : face := mkFace (lpatch (f_patch f)) (f_axis f) (f_ext f).

Definition faces_of (p : patch) : list face :=
  flat_map (fun a => [mkFace p a (-1)%Z; mkFace p a 1%Z]) (seq 0 (p_dim p)).

(* Union(..faces), Union(..interiors): sorted(set(args), key=str) *)
Definition canonF : list face -> list face := canon face_pyeqb face_str.
Definition canonP : list patch -> list patch := canon patch_pyeqb pname.

(* ------------------------------------------------------------------ interfaces *)
Inductive ornt := ONone | O2 (o : Z) | O3 (a b c : Z).
Record iface := mkIface { i_name : string; i_minus : face; i_plus : face; i_ornt : ornt }.

Definition ornt_beq (x y : ornt) : bool :=
  match x, y with
  | ONone, ONone => true
  | O2 a, O2 b => Z.eqb a b
  | O3 a b c, O3 a' b' c' => Z.eqb a a' && Z.eqb b b' && Z.eqb c c'
  | _, _ => false
  end.
Definition iface_pyeqb (i j : iface) : bool :=
  String.eqb (i_name i) (i_name j) && face_pyeqb (i_minus i) (i_minus j)
  && face_pyeqb (i_plus i) (i_plus j) && ornt_beq (i_ornt i) (i_ornt j).

Definition iname (a b : string) : string := a +++ "|" +++ b.

(* Interface.__new__ reached through Boundary.join(self=fm, boundary=fp, ornt) *)
Definition bjoin (fm fp : face) (o : ornt) : res iface :=
  if negb (Nat.eqb (p_dim (f_patch fm)) (p_dim (f_patch fp))) then Err EType else
  do o' <- (if Nat.eqb (p_dim (f_patch fm)) 3
            then match o with O3 _ _ _ => Ok o | _ => Err EType end     (* tuple(ornt) *)
            else Ok o);
  if negb (Nat.eqb (f_axis fm) (f_axis fp)) then Err EAssert else
  Ok (mkIface (iname (pname (f_patch fm)) (pname (f_patch fp))) fm fp o').

(* Interface.logical_domain, set by Boundary.join when both sides are mapped *)
Definition iface_logical (i : iface) : option iface :=
  if is_mapped (f_patch (i_minus i)) && is_mapped (f_patch (i_plus i))
  then Some (mkIface (iname (p_lname (f_patch (i_minus i))) (p_lname (f_patch (i_plus i))))
                     (lface (i_minus i)) (lface (i_plus i)) (i_ornt i))
  else None.

(* Connectivity._data : a dict keyed by the interface name, in insertion order *)
Definition dict_mem (k : string) (l : list iface) : bool :=
  existsb (fun i => String.eqb (i_name i) k) l.
Fixpoint dict_set (i : iface) (l : list iface) : list iface :=
  match l with
  | [] => [i]
  | j :: r => if String.eqb (i_name j) (i_name i) then i :: r else j :: dict_set i r
  end.

(* ------------------------------------------------------------------ domains *)
Inductive dmapping :=
| MNone
| MSingle (m : string)                      (* Mapping *)
| MMulti (l : list (string * string)).      (* MultiPatchMapping: logical patch name -> mapping name *)

Inductive domain : Type :=
  mkDomain (name : string) (dim : nat)
           (interiors : list patch)     (* args of the interior Union (one element: a bare InteriorDomain) *)
           (boundary : list face)       (* args of the boundary Union ([] : None, one element: a bare Boundary) *)
           (conn : list iface)          (* Connectivity._data *)
           (mapping : dmapping)
           (logical : option domain).
Definition d_name d := match d with mkDomain n _ _ _ _ _ _ => n end.
Definition d_dim d := match d with mkDomain _ n _ _ _ _ _ => n end.
Definition d_interiors d := match d with mkDomain _ _ x _ _ _ _ => x end.
Definition d_boundary d := match d with mkDomain _ _ _ x _ _ _ => x end.
Definition d_conn d := match d with mkDomain _ _ _ _ x _ _ => x end.
Definition d_mapping d := match d with mkDomain _ _ _ _ _ x _ => x end.
Definition d_logical d := match d with mkDomain _ _ _ _ _ _ x => x end.

(* Connectivity.interfaces = Union(..values sorted by key) *)
Definition interfaces (d : domain) : list iface := canon iface_pyeqb i_name (d_conn d).
Definition interior_names (d : domain) : list string := map pname (d_interiors d).

(* NCube.__new__ (Line / Square / Cube / NCube) for an unmapped patch record *)
Definition ncube_domain (p : patch) : domain :=
  mkDomain (p_lname p) (p_dim p) [p] (canonF (faces_of p)) [] MNone None.

(* Domain.get_boundary(axis, ext) and NCubeInterior.get_boundary: first member of the
   boundary with that (axis, ext), ValueError when there is none *)
Definition get_boundary (d : domain) (a : nat) (e : Z) : res face :=
  match find (fun f => Z.eqb (f_ext f) e && Nat.eqb (f_axis f) a) (d_boundary d) with
  | Some f => Ok f
  | None => Err EValue
  end.

(* MappedDomain.__new__(mapping, logical_domain), Domain arm; the mapping is given by its name *)
Definition map_patch (m : string) (p : patch) : patch :=
  mkPatch (p_lname p) (Some m) (p_dim p) (p_min p) (p_max p).
Definition map_face (m : string) (f : face) : face :=
  mkFace (map_patch m (f_patch f)) (f_axis f) (f_ext f).
Definition map_domain (m : string) (d : domain) : res domain :=
  if existsb is_mapped (d_interiors d) then Err ENotImpl else   (* nested mappings are not modelled *)
  let ints := match d_interiors d with
              | [p] => [map_patch m p]
              | l => canonP (map (map_patch m) l)
              end in
  let bnd := canonF (map (map_face m) (d_boundary d)) in
  do conn <- (fix go (l : list iface) (acc : list iface) : res (list iface) :=
                match l with
                | [] => Ok acc
                | e :: r =>
                    (* Interface(e.name, mapping(e.minus), mapping(e.plus), ornt=e.ornt)
                       (before /repo's "fix: MappedDomain keeps the orientation" the orientation was not passed on) *)
                    do i <- bjoin (map_face m (i_minus e)) (map_face m (i_plus e)) (i_ornt e);
                    go r (dict_set (mkIface (i_name e) (i_minus i) (i_plus i) (i_ornt i)) acc)
                end) (interfaces d) [];
  Ok (mkDomain (m +++ "(" +++ d_name d +++ ")") (d_dim d) ints bnd conn (MSingle m) (Some d)).

(* ------------------------------------------------------------------ Domain.join *)
Inductive pref := PIdx (n : nat) | PObj (d : domain).
Record cside := mkSide { s_ref : pref; s_axis : nat; s_ext : Z }.
Record conn := mkConn { c_minus : cside; c_plus : cside; c_ornt : option ornt }.

Definition resolve_patch (ps : list domain) (by_idx : bool) (r : pref) : res domain :=
  match by_idx, r with
  | true, PIdx n => match nth_error ps n with Some d => Ok d | None => Err EIndex end
  | true, PObj _ => Err EType          (* list indices must be integers *)
  | false, PObj d => Ok d
  | false, PIdx _ => Err EAttr         (* 'int' object has no attribute 'get_boundary' *)
  end.

Definition ornt_of (dim : nat) (o : option ornt) : res ornt :=
  match dim with
  | 1 => Ok ONone
  | 2 => Ok (match o with None => O2 1 | Some x => x end)
  | 3 => match o with
         | None => Ok (O3 1 1 1)
         | Some (O3 a b c) => Ok (O3 a b c)
         | Some _ => Err EType         (* 'int' object is not subscriptable *)
         end
  | _ => Err EUnbound                  (* ornt is never assigned *)
  end.

Definition resolve_conn (ps : list domain) (by_idx : bool) (dim : nat) (c : conn)
  : res (face * face * ornt) :=
  do pm <- resolve_patch ps by_idx (s_ref (c_minus c));
  do pp <- resolve_patch ps by_idx (s_ref (c_plus c));
  do fm <- get_boundary pm (s_axis (c_minus c)) (s_ext (c_minus c));
  do fp <- get_boundary pp (s_axis (c_plus c)) (s_ext (c_plus c));
  do o <- ornt_of dim (c_ornt c);
  Ok (fm, fp, o).

(* one iteration of  `for cn in connectivity`  on an already resolved connection *)
Definition join_step (x : face * face * ornt) (ifs : list iface) : res (list iface) :=
  let '(fm, fp, o) := x in
  do i0 <- bjoin fm fp o;
  do i <- (if dict_mem (i_name i0) ifs then bjoin fp fm o else Ok i0);
  Ok (dict_set i ifs).

Fixpoint join_loop (ps : list domain) (by_idx : bool) (dim : nat) (cs : list conn)
         (ifs : list iface) (bnds : list face) : res (list iface * list face) :=
  match cs with
  | [] => Ok (ifs, bnds)
  | c :: r =>
      do x <- resolve_conn ps by_idx dim c;
      do ifs' <- join_step x ifs;
      join_loop ps by_idx dim r ifs' (bnds ++ [fst (fst x); snd (fst x)])
  end.

(* the logical connectivity: logical_connectivity[v.logical_domain.name] = v.logical_domain *)
Fixpoint logical_conn (l : list iface) (acc : list iface) : res (list iface) :=
  match l with
  | [] => Ok acc
  | v :: r => match iface_logical v with
              | None => Err EAttr
              | Some lv => logical_conn r (dict_set lv acc)
              end
  end.

(* {e.logical_domain: e.mapping for e in interiors} *)
Fixpoint mdict_set (k v : string) (l : list (string * string)) : list (string * string) :=
  match l with
  | [] => [(k, v)]
  | (k', v') :: r => if String.eqb k' k then (k, v) :: r else (k', v') :: mdict_set k v r
  end.
Definition multi_mapping (ints : list patch) : dmapping :=
  MMulti (fold_left (fun acc p => mdict_set (p_lname p) (match p_map p with Some m => m | None => "" end) acc)
                    ints []).

Definition by_indices (cs : list conn) : bool :=
  match cs with
  | c :: _ => match s_ref (c_minus c) with PIdx _ => true | PObj _ => false end
  | [] => false
  end.

Definition join (ps : list domain) (cs : list conn) (nm : string) : res domain :=
  match ps with
  | [] => Err EIndex                                      (* patches[0] *)
  | [p] => match cs with [] => Ok p | _ => Err EAssert end
  | p0 :: _ =>
      if negb (forallb (fun p => Nat.eqb (d_dim p) (d_dim p0)) ps) then Err EAssert else
      let dim := d_dim p0 in
      do st <- join_loop ps (by_indices cs) dim cs [] [];
      let '(ifs, joined) := st in
      (* members = lambda u: [] if u is None else (list(u.args) if isinstance(u, Union) else [u])
         joined     = members(Union(..boundaries))
         boundaries = members(Union(.. [b for p in patches for b in members(p.boundary) if b not in joined])) *)
      let bnd := canonF (filter (fun f => negb (mem face_pyeqb f (canonF joined))) (flat_map d_boundary ps)) in
      let ints := canonP (flat_map d_interiors ps) in
      if Nat.ltb (length ints) 2 then Err EType else         (* `for e in interiors` on a bare interior *)
      if forallb is_mapped ints then
        let lints := canonP (map lpatch ints) in
        let lbnd := canonF (map lface bnd) in
        do lifs <- logical_conn ifs [];
        let L := mkDomain nm dim lints lbnd lifs MNone None in
        Ok (mkDomain nm dim ints bnd ifs (multi_mapping ints) (Some L))
      else
        Ok (mkDomain nm dim ints bnd ifs MNone None)
  end.

(* ------------------------------------------------------------------ Domain.get_subdomain *)
Inductive selection := SelStr (s : string) | SelTuple (l : list string).

Definition smem (s : string) (l : list string) : bool := existsb (String.eqb s) l.
Fixpoint snodup (l : list string) : bool :=
  match l with [] => true | s :: r => negb (smem s r) && snodup r end.

(* interfaces_dict : keyed by (minus.domain.name, plus.domain.name) *)
Definition ikey_eqb (a b : string) (i : iface) : bool :=
  String.eqb (pname (f_patch (i_minus i))) a && String.eqb (pname (f_patch (i_plus i))) b.
Fixpoint pdict_set (i : iface) (l : list iface) : list iface :=
  match l with
  | [] => [i]
  | j :: r => if ikey_eqb (pname (f_patch (i_minus i))) (pname (f_patch (i_plus i))) j
              then i :: r else j :: pdict_set i r
  end.
Definition pdict_pop (a b : string) (l : list iface) : option iface * list iface :=
  (find (ikey_eqb a b) l, filter (fun i => negb (ikey_eqb a b i)) l).

(* Domain(name=name, interiors=interior, boundaries=boundaries, mapping=interior.mapping,
          logical_domain=interior.logical_domain) for one patch *)
Definition sub_single (p : patch) (bnds : list face) : domain :=
  mkDomain (pname p) (p_dim p) [p] (canonF bnds) []
           (match p_map p with Some m => MSingle m | None => MNone end)
           (match p_map p with Some _ => Some (ncube_domain (lpatch p)) | None => None end).

(* the inner loop  `for other_name in self.interior_names`  for the patch [name] *)
Fixpoint sub_others (name : string) (names others : list string)
         (idict : list iface) (bnds : list face) (ifs : list iface)
  : list iface * list face * list iface :=
  match others with
  | [] => (idict, bnds, ifs)
  | o :: r =>
      if String.eqb o name then sub_others name names r idict bnds ifs else
      let (i_min, d1) := pdict_pop name o idict in
      let (i_pls, d2) := pdict_pop o name d1 in
      if negb (smem o names) then
        let b1 := match i_min with Some i => bnds ++ [i_minus i] | None => bnds end in
        let b2 := match i_pls with Some i => b1 ++ [i_plus i] | None => b1 end in
        sub_others name names r d2 b2 ifs
      else
        let f1 := match i_pls with Some i => ifs ++ [i] | None => ifs end in
        let f2 := match i_min with Some i => f1 ++ [i] | None => f1 end in
        sub_others name names r d2 bnds f2
  end.

(* forward declaration order: sub_loop uses join *)
Fixpoint sub_loop (d : domain) (todo names : list string)
         (idict : list iface) (ifs : list iface) (prev : option domain) : res (option domain * list iface) :=
  match todo with
  | [] => Ok (prev, ifs)
  | name :: r =>
      if String.eqb name (d_name d) then Ok (Some d, []) else
      match find (fun p => String.eqb (pname p) name) (d_interiors d) with
      | None => Err EKey
      | Some p =>
          let bdict := flat_map (fun a => flat_map (fun e =>
                         match find (fun f => String.eqb (pname (f_patch f)) name && Nat.eqb (f_axis f) a
                                              && Z.eqb (f_ext f) e) (d_boundary d) with
                         | Some f => [f] | None => [] end) [(-1)%Z; 1%Z]) (seq 0 (d_dim d)) in
          let '(idict', bnds, ifs') := sub_others name names (interior_names d) idict bdict ifs in
          let nd := sub_single p bnds in
          match prev with
          | None => sub_loop d r names idict' ifs' (Some nd)
          | Some pd =>
              do j <- join [pd; nd] [] (d_name pd +++ "|" +++ d_name nd);
              sub_loop d r names idict' ifs' (Some j)
          end
      end
  end.

Definition set_conn (d : domain) (c : list iface) : domain :=
  match d with mkDomain n k i b _ m l => mkDomain n k i b c m l end.

Definition get_subdomain (d : domain) (sel : selection) : res (option domain) :=
  match sel with
  | SelTuple [] => Ok None
  | _ =>
    do names <- match sel with
                | SelStr s => if smem s (interior_names d) then Ok [s] else Err EAssert
                | SelTuple l =>
                    if negb (snodup l) then Err EAssert else
                    if negb (forallb (fun n => smem n (interior_names d) || String.eqb n (d_name d)) l)
                    then Err EAssert else Ok l
                end;
    match d_interiors d with
    | [p] => if String.eqb (hd "" names) (pname p) then Ok (Some d) else Err EAssert
    | _ =>
      if Nat.eqb (length names) (length (interior_names d)) || smem (d_name d) names then Ok (Some d) else
      let idict := fold_left (fun acc i => pdict_set i acc) (interfaces d) [] in
      do r <- sub_loop d names names idict [] None;
      match r with
      | (None, _) => Err EUnbound
      | (Some jd, ifs) =>
          if String.eqb (d_name jd) (d_name d) && Nat.eqb (length (d_interiors jd)) (length (d_interiors d))
          then Ok (Some jd)     (* `return self` from inside the loop *)
          else Ok (Some (set_conn jd (fold_left (fun acc i => dict_set i acc) ifs (d_conn jd))))
      end
    end
  end.

(* ------------------------------------------------------------------ todict / from_file (C15) *)
Inductive one_or_many (A : Type) : Type := One (a : A) | Many (l : list A).
Arguments One {A} a. Arguments Many {A} l.

(* NCube.__new__: the dtype dictionary *)
Inductive dtype :=
| DLine (b0 b1 : bound)
| DSquare (b10 b11 b20 b21 : bound)
| DCube (b10 b11 b20 b21 b30 b31 : bound)
| DNCube (dim : nat) (mins maxs : list bound).

Definition bnth (l : list bound) (k : nat) : bound := nth k l "".
Definition dtype_of (p : patch) : dtype :=
  match p_dim p with
  | 1 => DLine (bnth (p_min p) 0) (bnth (p_max p) 0)
  | 2 => DSquare (bnth (p_min p) 0) (bnth (p_max p) 0) (bnth (p_min p) 1) (bnth (p_max p) 1)
  | 3 => DCube (bnth (p_min p) 0) (bnth (p_max p) 0) (bnth (p_min p) 1) (bnth (p_max p) 1)
               (bnth (p_min p) 2) (bnth (p_max p) 2)
  | n => DNCube n (p_min p) (p_max p)
  end.

Record fint := mkFint { fi_name : string; fi_mapping : string }.
Record fbnd := mkFbnd { fb_axis : nat; fb_ext : Z; fb_name : string; fb_patch : string; fb_mapping : string }.
Record fdict := mkFdict {
  fd_name : string; fd_dim : nat; fd_dtype : one_or_many dtype;
  fd_interior : one_or_many fint; fd_boundary : one_or_many fbnd;
  fd_conn : list (string * (fbnd * fbnd)) }.

(* str(self.mapping.name if self.mapping else None) *)
Definition mapping_str (p : patch) : string := match p_map p with Some m => m | None => "None" end.
(* InteriorDomain.todict *)
Definition fint_of (p : patch) : fint := mkFint (p_lname p) (mapping_str p).
(* Boundary.todict *)
Definition fbnd_of (f : face) : fbnd :=
  mkFbnd (f_axis f) (f_ext f) (gamma_name (f_axis f) (f_ext f)) (p_lname (f_patch f)) (mapping_str (f_patch f)).

(* Domain.todict *)
Definition todict (d : domain) : res fdict :=
  let interior := match d_interiors d with [p] => One (fint_of p) | l => Many (map fint_of l) end in
  do boundary <- match d_boundary d with
                 | [] => Ok (Many [])                    (* no external boundary: an empty list (before /repo's
                                                            "fix: a domain without external boundary can be exported"
                                                            None.todict() raised AttributeError) *)
                 | [b] => Ok (One (fbnd_of b))
                 | l => Ok (Many (map fbnd_of l))
                 end;
  let connectivity := map (fun i => (i_name i, (fbnd_of (i_minus i), fbnd_of (i_plus i))))
                          (sort i_name (d_conn d)) in
  let dt := match d_interiors d with [p] => One (dtype_of p) | l => Many (map dtype_of l) end in
  Ok (mkFdict (d_name d) (d_dim d) dt interior boundary connectivity).

(* cs(name, **dt['parameters']) : Line / Square / Cube / NCube constructors *)
Definition ncube_new (name : string) (dim : nat) (mins maxs : list bound) : res domain :=
  if String.eqb name "" then Err EValue else
  if Nat.ltb dim 1 then Err EValue else
  if negb (Nat.eqb dim (length mins) && Nat.eqb dim (length maxs)) then Err EValue else
  Ok (ncube_domain (mkPatch name None dim mins maxs)).
Definition dtype_new (name : string) (dt : dtype) : res domain :=
  match dt with
  | DLine a b => ncube_new name 1 [a] [b]
  | DSquare a b c d => ncube_new name 2 [a; c] [b; d]
  | DCube a b c d e f => ncube_new name 3 [a; c; e] [b; d; f]
  | DNCube n mins maxs => ncube_new name n mins maxs
  end.

Fixpoint mapM {A B} (f : A -> res B) (l : list A) : res (list B) :=
  match l with
  | [] => Ok []
  | a :: r => do b <- f a; do bs <- mapM f r; Ok (b :: bs)
  end.

(* patch_index = {I.name: ind for ind, I in enumerate(interiors)} : the last index wins *)
Fixpoint index_of (k : string) (l : list string) (i : nat) (acc : option nat) : option nat :=
  match l with
  | [] => acc
  | s :: r => index_of k r (S i) (if String.eqb s k then Some i else acc)
  end.
Definition patch_index (names : list string) (k : string) : res nat :=
  match index_of k names 0 None with Some i => Ok i | None => Err EKey end.

(* Domain.from_file after the YAML has been loaded *)
Definition from_dict (fd : fdict) : res domain :=
  do pr <- match fd_interior fd, fd_dtype fd with
           | One i, One t => Ok ([i], [t])
           | Many li, Many lt => Ok (li, lt)
           | _, _ => Err EType
           end;
  let '(d_interior, dts) := pr in
  do interiors <- mapM (fun it => dtype_new (fi_name (fst it)) (snd it)) (combine d_interior dts);
  do domains <- mapM (fun it => if String.eqb (fi_mapping (fst it)) "None" then Ok (snd it)
                                else map_domain (fi_mapping (fst it)) (snd it))
                     (combine d_interior interiors);
  let names := map d_name interiors in
  do _b <- match fd_boundary fd with
           | One _ => Err EType                          (* iterating a dict yields its keys *)
           | Many l => mapM (fun bd => do i <- patch_index names (fb_patch bd);
                                       match nth_error domains i with
                                       | Some dm => get_boundary dm (fb_axis bd) (fb_ext bd)
                                       | None => Err EIndex
                                       end) l
           end;
  do conns <- mapM (fun e => let '(_, (m, p)) := e in
                             do mi <- patch_index names (fb_patch m);
                             do pi <- patch_index names (fb_patch p);
                             Ok (mkConn (mkSide (PIdx mi) (fb_axis m) (fb_ext m))
                                        (mkSide (PIdx pi) (fb_axis p) (fb_ext p)) None))
                   (fd_conn fd);
  match domains with
  | [d] => Ok d
  | _ => join domains conns (fd_name fd)
  end.

(* ------------------------------------------------------------------ decidable comparisons
   used by the generated case files to decide agreement with the implementation inside Coq *)
Fixpoint list_beq {A} (f : A -> A -> bool) (l1 l2 : list A) : bool :=
  match l1, l2 with
  | [], [] => true
  | x :: r, y :: s => f x y && list_beq f r s
  | _, _ => false
  end.
Definition opt_beq {A} (f : A -> A -> bool) (x y : option A) : bool :=
  match x, y with None, None => true | Some a, Some b => f a b | _, _ => false end.
Definition patch_beq (p q : patch) : bool :=
  String.eqb (p_lname p) (p_lname q) && opt_beq String.eqb (p_map p) (p_map q)
  && Nat.eqb (p_dim p) (p_dim q) && list_beq String.eqb (p_min p) (p_min q)
  && list_beq String.eqb (p_max p) (p_max q).
Definition face_beq (f g : face) : bool :=
  patch_beq (f_patch f) (f_patch g) && Nat.eqb (f_axis f) (f_axis g) && Z.eqb (f_ext f) (f_ext g).
Definition iface_beq (i j : iface) : bool :=
  String.eqb (i_name i) (i_name j) && face_beq (i_minus i) (i_minus j)
  && face_beq (i_plus i) (i_plus j) && ornt_beq (i_ornt i) (i_ornt j).
Definition dmapping_beq (a b : dmapping) : bool :=
  match a, b with
  | MNone, MNone => true
  | MSingle m, MSingle n => String.eqb m n
  | MMulti l, MMulti l' => list_beq (fun x y => String.eqb (fst x) (fst y) && String.eqb (snd x) (snd y)) l l'
  | _, _ => false
  end.
Fixpoint domain_beq (a b : domain) : bool :=
  match a, b with
  | mkDomain n1 k1 i1 b1 c1 m1 l1, mkDomain n2 k2 i2 b2 c2 m2 l2 =>
      String.eqb n1 n2 && Nat.eqb k1 k2 && list_beq patch_beq i1 i2 && list_beq face_beq b1 b2
      && list_beq iface_beq c1 c2 && dmapping_beq m1 m2
      && match l1, l2 with
         | None, None => true
         | Some x, Some y => domain_beq x y
         | _, _ => false
         end
  end.
(* what the harness reads off a real Domain, put in the model's canonical order *)
Fixpoint dnorm (d : domain) : domain :=
  match d with
  | mkDomain n k i b c m l =>
      mkDomain n k (sort pname i) (sort face_str b) (sort i_name c) m
               (match l with Some x => Some (dnorm x) | None => None end)
  end.
Definition err_beq (a b : err) : bool :=
  match a, b with
  | EAssert, EAssert | EValue, EValue | EType, EType | EIndex, EIndex | EAttr, EAttr
  | EUnbound, EUnbound | EKey, EKey | ENotImpl, ENotImpl => true
  | _, _ => false
  end.
Definition res_domain_sim (model impl : res domain) : bool :=
  match model, impl with
  | Ok a, Ok b => domain_beq (dnorm a) (dnorm b)
  | Err e, Err e' => err_beq e e'
  | _, _ => false
  end.
Definition res_optdomain_sim (model impl : res (option domain)) : bool :=
  match model, impl with
  | Ok (Some a), Ok (Some b) => domain_beq (dnorm a) (dnorm b)
  | Ok None, Ok None => true
  | Err e, Err e' => err_beq e e'
  | _, _ => false
  end.
Definition res_face_sim (model impl : res face) : bool :=
  match model, impl with
  | Ok a, Ok b => face_beq a b
  | Err e, Err e' => err_beq e e'
  | _, _ => false
  end.

Definition dtype_beq (a b : dtype) : bool :=
  match a, b with
  | DLine x y, DLine x' y' => String.eqb x x' && String.eqb y y'
  | DSquare a1 a2 a3 a4, DSquare b1 b2 b3 b4 =>
      String.eqb a1 b1 && String.eqb a2 b2 && String.eqb a3 b3 && String.eqb a4 b4
  | DCube a1 a2 a3 a4 a5 a6, DCube b1 b2 b3 b4 b5 b6 =>
      String.eqb a1 b1 && String.eqb a2 b2 && String.eqb a3 b3 && String.eqb a4 b4
      && String.eqb a5 b5 && String.eqb a6 b6
  | DNCube n l m, DNCube n' l' m' => Nat.eqb n n' && list_beq String.eqb l l' && list_beq String.eqb m m'
  | _, _ => false
  end.
Definition oom_beq {A} (f : A -> A -> bool) (x y : one_or_many A) : bool :=
  match x, y with
  | One a, One b => f a b
  | Many l, Many l' => list_beq f l l'
  | _, _ => false
  end.
Definition fint_beq (a b : fint) : bool :=
  String.eqb (fi_name a) (fi_name b) && String.eqb (fi_mapping a) (fi_mapping b).
Definition fbnd_beq (a b : fbnd) : bool :=
  Nat.eqb (fb_axis a) (fb_axis b) && Z.eqb (fb_ext a) (fb_ext b) && String.eqb (fb_name a) (fb_name b)
  && String.eqb (fb_patch a) (fb_patch b) && String.eqb (fb_mapping a) (fb_mapping b).
Definition fdict_beq (a b : fdict) : bool :=
  String.eqb (fd_name a) (fd_name b) && Nat.eqb (fd_dim a) (fd_dim b)
  && oom_beq dtype_beq (fd_dtype a) (fd_dtype b) && oom_beq fint_beq (fd_interior a) (fd_interior b)
  && oom_beq fbnd_beq (fd_boundary a) (fd_boundary b)
  && list_beq (fun x y => String.eqb (fst x) (fst y) && fbnd_beq (fst (snd x)) (fst (snd y))
                          && fbnd_beq (snd (snd x)) (snd (snd y))) (fd_conn a) (fd_conn b).
Definition res_fdict_sim (model impl : res fdict) : bool :=
  match model, impl with
  | Ok a, Ok b => fdict_beq a b
  | Err e, Err e' => err_beq e e'
  | _, _ => false
  end.
