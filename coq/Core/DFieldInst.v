(* The record [dfield] (Core/DField.v) is inhabited by a non-degenerate structure:
   the field Q(x0,x1,x2,X0,X1,X2) of rational functions in six variables over the
   rationals (MathComp's [{fraction {mpoly rat[6]}}]), with
     D false i = d/dx_i  (variables 0..2, "physical"),
     D true  i = d/dX_i  (variables 3..5, "logical"),   for i < 3,
   and the zero map for i >= 3 (allowed by the [Nat.ltb j 3] guard of [D_crd]).
   Elementary functions are nowhere defined ([Edom], [Pdom] := False); the general
   power [P b e] is b^z when e is (decidably) the integer literal z, and 0 otherwise.
   Everything is constructive: [Print Assumptions] reports a closed term.

   Layout:  1. pure field identities (algebra-tactics [field]);
            2. lifting a derivation of an integral domain to its fraction field;
            3. a MathComp [fieldType] is a stdlib [field_theory]; [phi], [fpow];
            4. the instance [QX] and [dfield_inhabited]. *)
From mathcomp Require Import all_ssreflect all_algebra.
From mathcomp Require Import ring.
From SsrMultinomials Require Import mpoly.
From Coq Require ZArith Field_theory Ring_theory InitialRing String.
From V Require Core.FieldEq Core.Terminal Core.DField.
Set Implicit Arguments.
Unset Strict Implicit.
Unset Printing Implicit Defensive.
Import GRing.Theory.
Local Open Scope ring_scope.
Local Open Scope quotient_scope.

Local Notation tofrac := (@FracField.tofrac _).
Local Notation "x %:F" := (@FracField.tofrac _ x).

(* pure field identities (proved on variables: [field] is slow through [tofrac]) *)
Section Pure.
Variable F : fieldType.
Implicit Types a b c e : F.

Lemma quotD_id a b c e a' b' c' e' : b != 0 -> e != 0 ->
  ((a' * e + a * e' + (c' * b + c * b')) * (b * e) - (a * e + c * b) * (b' * e + b * e'))
    / (b * e) ^+ 2
  = (a' * b - a * b') / b ^+ 2 + (c' * e - c * e') / e ^+ 2.
Proof. by move=> nb ne; field; rewrite nb ne. Qed.

Lemma quotM_id a b c e a' b' c' e' : b != 0 -> e != 0 ->
  ((a' * c + a * c') * (b * e) - a * c * (b' * e + b * e')) / (b * e) ^+ 2
  = (a' * b - a * b') / b ^+ 2 * (c / e) + a / b * ((c' * e - c * e') / e ^+ 2).
Proof. by move=> nb ne; field; rewrite nb ne. Qed.

Lemma quot_comm_id a b a1 b1 a2 b2 a12 b12 : b != 0 ->
  ((a12 * b + a2 * b1 - (a1 * b2 + a * b12)) * (b * b) - (a2 * b - a * b2) * (b1 * b + b * b1))
    / (b * b) ^+ 2
  = ((a12 * b + a1 * b2 - (a2 * b1 + a * b12)) * (b * b) - (a1 * b - a * b1) * (b2 * b + b * b2))
    / (b * b) ^+ 2.
Proof. by move=> nb; field. Qed.
End Pure.

(* ---------------------------------------------------------------- *)
(* Lifting a derivation of an integral domain to its fraction field *)
Section FracDer.
Variable R : idomainType.
Local Notation K := {fraction R}.

Lemma fracE (x : K) : x = (\n_(repr x))%:F / (\d_(repr x))%:F.
Proof.
set r := repr x.
have nz : (\d_r)%:F != 0 :> K by rewrite tofrac_eq0 denom_ratioP.
apply: (canRL (mulfK nz)); rewrite -[x]reprK -/r.
unlock FracField.tofrac.
rewrite -[LHS]FracField.pi_mul; apply/eqmodP.
rewrite /= FracField.equivfE /FracField.mulf /= !numden_Ratio ?oner_eq0 ?mulr1 ?mul1r ?denom_ratioP //.
by rewrite mulrC.
Qed.

Lemma frac_ind (P : K -> Prop) :
  (forall a b, b != 0 -> P (a%:F / b%:F)) -> forall x, P x.
Proof. by move=> H x; rewrite (fracE x); apply: H; apply: denom_ratioP. Qed.

Section One.
Variable d : R -> R.
Hypothesis dD : forall a b, d (a + b) = d a + d b.
Hypothesis dM : forall a b, d (a * b) = d a * b + a * d b.

Lemma der0 : d 0 = 0.
Proof. by apply: (addrI (d 0)); rewrite -dD !addr0. Qed.

Lemma derN a : d (- a) = - d a.
Proof. by apply: (addrI (d a)); rewrite -dD !subrr der0. Qed.

Lemma derB a b : d (a - b) = d a - d b.
Proof. by rewrite dD derN. Qed.

Lemma der1 : d 1 = 0.
Proof. by apply: (addrI (d 1)); rewrite addr0; have := dM 1 1; rewrite !mulr1 mul1r => <-. Qed.

Definition Dfrac (x : K) : K :=
  ((d \n_(repr x))%:F * (\d_(repr x))%:F - (\n_(repr x))%:F * (d \d_(repr x))%:F)
  / (\d_(repr x))%:F ^+ 2.

Lemma DfracE a b : b != 0 ->
  Dfrac (a%:F / b%:F) = ((d a)%:F * b%:F - a%:F * (d b)%:F) / b%:F ^+ 2.
Proof.
move=> nb; rewrite /Dfrac; set x := (a%:F / b%:F : K).
set n := \n_(repr x); set m := \d_(repr x).
have nm : m != 0 by apply: denom_ratioP.
have nbF : b%:F != 0 :> K by rewrite tofrac_eq0.
have nmF : m%:F != 0 :> K by rewrite tofrac_eq0.
have E : n * b = a * m.
  apply/eqP; rewrite -(tofrac_eq (n * b) (a * m)) !rmorphM /=; apply/eqP.
  by have := fracE x; rewrite -/n -/m {1}/x => /eqP; rewrite eqr_div // => /eqP ->.
have E' : d n * b + n * d b = d a * m + a * d m by rewrite -!dM E.
have H : (d n * m - n * d m) * b ^+ 2 = (d a * b - a * d b) * m ^+ 2.
  have -> : (d n * m - n * d m) * b ^+ 2 = m * b * (d n * b) - (n * b) * d m * b by ring.
  have -> : d n * b = d a * m + a * d m - n * d b by rewrite -E'; ring.
  have -> : m * b * (d a * m + a * d m - n * d b)
            = m * b * (d a * m + a * d m) - m * (n * b) * d b by ring.
  by rewrite E; ring.
apply/eqP; rewrite eqr_div ?expf_neq0 //; apply/eqP.
by move: (congr1 tofrac H); rewrite !(rmorphM, rmorphB, rmorphX).
Qed.

Lemma Dfrac_tofrac a : Dfrac (a%:F) = (d a)%:F.
Proof.
have := @DfracE a 1 (oner_neq0 _); rewrite der1 !rmorph1 !rmorph0 invr1 !mulr1 expr1n invr1 mulr1 mulr0 subr0.
by [].
Qed.

Lemma Dfrac0 : Dfrac 0 = 0.
Proof. by rewrite -(rmorph0 [rmorphism of tofrac]) Dfrac_tofrac der0 rmorph0. Qed.

Lemma DfracD x y : Dfrac (x + y) = Dfrac x + Dfrac y.
Proof.
elim/frac_ind: x => a b nb; elim/frac_ind: y => c e ne.
have nbF : b%:F != 0 :> K by rewrite tofrac_eq0.
have neF : e%:F != 0 :> K by rewrite tofrac_eq0.
have -> : a%:F / b%:F + c%:F / e%:F = (a * e + c * b)%:F / (b * e)%:F :> K.
  by rewrite addf_div // !rmorphD !rmorphM.
rewrite !DfracE ?mulf_neq0 // !dD !dM !rmorphD !rmorphM /=.
exact: quotD_id.
Qed.

Lemma DfracM x y : Dfrac (x * y) = Dfrac x * y + x * Dfrac y.
Proof.
elim/frac_ind: x => a b nb; elim/frac_ind: y => c e ne.
have nbF : b%:F != 0 :> K by rewrite tofrac_eq0.
have neF : e%:F != 0 :> K by rewrite tofrac_eq0.
have -> : a%:F / b%:F * (c%:F / e%:F) = (a * c)%:F / (b * e)%:F :> K.
  by rewrite mulf_div // !rmorphM.
rewrite !DfracE ?mulf_neq0 // !dM !rmorphD !rmorphM /=.
exact: quotM_id.
Qed.

End One.

Section Two.
Variables d1 d2 : R -> R.
Hypothesis d1D : forall a b, d1 (a + b) = d1 a + d1 b.
Hypothesis d1M : forall a b, d1 (a * b) = d1 a * b + a * d1 b.
Hypothesis d2D : forall a b, d2 (a + b) = d2 a + d2 b.
Hypothesis d2M : forall a b, d2 (a * b) = d2 a * b + a * d2 b.
Hypothesis d12 : forall a, d1 (d2 a) = d2 (d1 a).

Lemma Dfrac_comm x : Dfrac d1 (Dfrac d2 x) = Dfrac d2 (Dfrac d1 x).
Proof.
elim/frac_ind: x => a b nb.
have nbF : b%:F != 0 :> K by rewrite tofrac_eq0.
rewrite (DfracE d2M) // (DfracE d1M) //.
have -> : ((d2 a)%:F * b%:F - a%:F * (d2 b)%:F) / b%:F ^+ 2
          = (d2 a * b - a * d2 b)%:F / (b * b)%:F :> K.
  by rewrite !(rmorphM, rmorphB) expr2.
have -> : ((d1 a)%:F * b%:F - a%:F * (d1 b)%:F) / b%:F ^+ 2
          = (d1 a * b - a * d1 b)%:F / (b * b)%:F :> K.
  by rewrite !(rmorphM, rmorphB) expr2.
rewrite (DfracE d1M) ?mulf_neq0 // (DfracE d2M) ?mulf_neq0 //.
rewrite !(derB d1D, derB d2D) !d1M !d2M d12 (d12 b).
rewrite !(rmorphB, rmorphD, rmorphM) /=.
exact: quot_comm_id.
Qed.
End Two.
End FracDer.

(* ---------------------------------------------------------------- *)
(* A MathComp field is a field in the sense of Coq's [field_theory]  *)
Section StdField.
Variable F : fieldType.

Definition fsubF (a b : F) : F := a - b.
Definition fdivF (a b : F) : F := a / b.

Lemma mc_field_theory :
  Field_theory.field_theory (0 : F) 1 +%R *%R fsubF -%R fdivF GRing.inv (@eq F).
Proof.
split; first split.
- exact: add0r.
- exact: addrC.
- exact: addrA.
- exact: mul1r.
- exact: mulrC.
- exact: mulrA.
- exact: mulrDl.
- by [].
- exact: subrr.
- by apply/eqP; rewrite oner_eq0.
- by [].
- by move=> p /eqP np; rewrite mulVf.
Qed.

Definition int_of_Z (z : BinNums.Z) : int :=
  match z with
  | BinNums.Z0 => 0
  | BinNums.Zpos p => Posz (BinPos.Pos.to_nat p)
  | BinNums.Zneg p => - Posz (BinPos.Pos.to_nat p)
  end.

Lemma phiPOS_nat p :
  InitialRing.gen_phiPOS (1 : F) +%R *%R p = (BinPos.Pos.to_nat p)%:R.
Proof.
have E2 : (1 + 1 : F) = 2%:R by [].
elim: p => [p IH|p IH|] //.
- rewrite Pnat.Pos2Nat.inj_xI -[Nat.mul 2 _]/(2 * _)%N mulrS natrM -IH -E2.
  by case: p {IH} => //=; rewrite mulr1.
- rewrite Pnat.Pos2Nat.inj_xO -[Nat.mul 2 _]/(2 * _)%N natrM -IH -E2.
  by case: p {IH} => //=; rewrite mulr1.
Qed.

Lemma phiE z : FieldEq.phi F (0 : F) 1 +%R *%R -%R z = (int_of_Z z)%:~R.
Proof.
case: z => [|p|p]; rewrite /FieldEq.phi /InitialRing.gen_phiZ /=.
- by [].
- by rewrite phiPOS_nat.
- by rewrite phiPOS_nat mulrNz.
Qed.

Lemma pow_posE (x : F) p : Ring_theory.pow_pos *%R x p = x ^+ BinPos.Pos.to_nat p.
Proof.
elim: p => [p IH|p IH|] /=.
- by rewrite IH Pnat.Pos2Nat.inj_xI -[Nat.mul 2 _]/(2 * _)%N exprS mul2n -addnn exprD.
- by rewrite IH Pnat.Pos2Nat.inj_xO -[Nat.mul 2 _]/(2 * _)%N mul2n -addnn exprD.
- by rewrite Pnat.Pos2Nat.inj_1 expr1.
Qed.

Lemma fpowE (x : F) p : FieldEq.fpow F 1 *%R x (BinNums.Npos p) = x ^+ BinPos.Pos.to_nat p.
Proof. exact: pow_posE. Qed.
End StdField.

(* ---------------------------------------------------------------- *)
(* The instance: rational functions in 6 variables over Q            *)
Definition RX : idomainType := [idomainType of {mpoly rat[6]}].
Definition KX : fieldType := [fieldType of {fraction RX}].

(* integer literals *)
Lemma intrKX (z : int) : z%:~R = ((z%:~R : rat)%:MP : RX)%:F :> KX.
Proof. by rewrite !rmorph_int. Qed.

(* a decidable candidate for "e is the integer literal z" *)
Definition cand (e : KX) : rat :=
  mleadc (\n_(repr e) : RX) / mleadc (\d_(repr e) : RX).

Lemma cand_int (z : int) : cand (z%:~R) = z%:~R.
Proof.
rewrite /cand; set e : KX := z%:~R; set n : RX := \n_(repr e); set m : RX := \d_(repr e).
have nm : m != 0 by apply: denom_ratioP.
have nmF : m%:F != 0 :> KX by rewrite tofrac_eq0.
have E : n = (z%:~R : rat) *: m.
  rewrite -mul_mpolyC; apply/eqP; rewrite -(tofrac_eq n) rmorphM /= -intrKX -/e.
  by rewrite [e in X in _ == X]fracE -/n -/m mulfVK.
by rewrite E mleadcZE mulfK // mleadc_eq0.
Qed.

Definition Ppow (b e : KX) : KX :=
  let z := numq (cand e) in if e == z%:~R then b ^ z else 0.

Lemma Ppow_int b (z : int) : Ppow b (z%:~R) = b ^ z.
Proof. by rewrite /Ppow cand_int numq_int eqxx. Qed.

(* the two families of derivations *)
Definition idx (lg : bool) (i : nat) : 'I_6 := inord (if lg then (3 + i)%N else i).

Lemma idx_inj lg i j : (i < 3)%N -> (j < 3)%N -> (idx lg i == idx lg j) = (i == j).
Proof.
have H k : (k < 3)%N -> ((if lg then (3 + k)%N else k) < 6)%N.
  by case: lg => lk; rewrite ?(ltn_add2l 3 k 3) // (ltn_trans lk).
move=> li lj; rewrite -val_eqE /= !inordK ?H //.
by case: {H} lg => //; rewrite eqn_add2l.
Qed.

Definition DX (lg : bool) (i : nat) (x : KX) : KX :=
  if (i < 3)%N then Dfrac (mderiv (idx lg i) : RX -> RX) x else 0.

Lemma mdD (k : 'I_6) (a b : RX) : mderiv k (a + b) = mderiv k a + mderiv k b.
Proof. exact: mderivD. Qed.
Lemma mdM (k : 'I_6) (a b : RX) : mderiv k (a * b) = mderiv k a * b + a * mderiv k b.
Proof. exact: mderivM. Qed.
Lemma mdC (k l : 'I_6) (a : RX) : mderiv k (mderiv l a) = mderiv l (mderiv k a).
Proof. exact: mderiv_comm. Qed.

Lemma mderiv_var (k l : 'I_6) : mderiv k ('X_l : RX) = (k == l)%:R.
Proof.
rewrite mderivX mnm1E eq_sym; case: eqP => [->|_]; last by rewrite scale0r.
have -> : (U_(l) - U_(l))%MM = 0%MM :> 'X_{1..6} by apply/mnmP=> i; rewrite !mnmE subnn.
by rewrite scale1r mpolyX0.
Qed.

Lemma DX_add lg i a b : DX lg i (a + b) = DX lg i a + DX lg i b.
Proof. by rewrite /DX; case: ifP => _; [apply: DfracD; [exact: mdD|exact: mdM] | rewrite addr0]. Qed.

Lemma DX_mul lg i a b : DX lg i (a * b) = DX lg i a * b + a * DX lg i b.
Proof. by rewrite /DX; case: ifP => _; [apply: DfracM; exact: mdM | rewrite mul0r mulr0 addr0]. Qed.

Lemma DX_tofrac lg i (p : RX) :
  DX lg i (p%:F) = if (i < 3)%N then (mderiv (idx lg i) p)%:F else 0.
Proof. by rewrite /DX; case: ifP => // _; apply/Dfrac_tofrac/mdM. Qed.

Lemma DX_const lg i (c : rat) : DX lg i ((c%:MP : RX)%:F) = 0.
Proof. by rewrite DX_tofrac mderivC rmorph0 if_same. Qed.

Lemma DX_comm lg i j a : DX lg i (DX lg j a) = DX lg j (DX lg i a).
Proof.
rewrite /DX; case: (ifP (i < 3)%N) => _; case: (ifP (j < 3)%N) => _ //.
- by apply: Dfrac_comm; [exact: mdD|exact: mdM|exact: mdD|exact: mdM|move=> x; exact: mdC].
- by apply: Dfrac0; [exact: mdD|exact: mdM].
- by rewrite Dfrac0 //; [exact: mdD|exact: mdM].
Qed.

Lemma DX0 lg i : DX lg i 0 = 0.
Proof. by have := DX_const lg i 0; rewrite !rmorph0. Qed.

Lemma eqbE i j : Nat.eqb i j = (i == j).
Proof. by apply/PeanoNat.Nat.eqb_spec/eqP. Qed.

Lemma ltbE i j : Nat.ltb i j = (i < j)%N.
Proof. by apply/PeanoNat.Nat.ltb_spec0/ltP. Qed.

(* the environment *)
Definition crdX (lg : bool) (j : nat) : KX :=
  if (j < 3)%N then ('X_(idx lg j) : RX)%:F else 0.

Definition cstX (s : String.string) : KX :=
  ((((String.length s)%:R : rat)%:MP) : RX)%:F.

Definition fldX (f : String.string) (c : nat) (s : Terminal.side) : KX :=
  ((\sum_(k < 6) 'X_k) + ((c%:R : rat)%:MP) : RX)%:F.

Definition mpX (m : String.string) (i : nat) : KX :=
  crdX true i + crdX true 0 * crdX true 1 * crdX true 2.

Definition nrmX (s : Terminal.side) (i : nat) : KX := (fldX String.EmptyString i s)^-1.

Lemma DX_phi lg i z : DX lg i (FieldEq.phi KX 0 1 +%R *%R -%R z) = 0.
Proof. by rewrite phiE intrKX DX_const. Qed.

Lemma DX_cst lg i s : DX lg i (cstX s) = 0.
Proof. exact: DX_const. Qed.

Lemma DX_crd lg i j :
  DX lg i (crdX lg j) = if Nat.eqb i j && Nat.ltb j 3 then 1 else 0.
Proof.
rewrite eqbE ltbE /crdX; case: (ltnP j 3) => lj; last by rewrite DX0 andbF.
rewrite andbT DX_tofrac mderiv_var; case: (ltnP i 3) => li.
  by rewrite idx_inj //; case: eqP => _; rewrite ?rmorph1 ?rmorph0.
by case: eqP => // E; move: li; rewrite E leqNgt lj.
Qed.

Lemma PX_pos b p :
  Ppow b (FieldEq.phi KX 0 1 +%R *%R -%R (BinNums.Zpos p))
  = FieldEq.fpow KX 1 *%R b (BinNums.Npos p).
Proof. by rewrite phiE fpowE Ppow_int. Qed.

Lemma PX_zero b : Ppow b 0 = 1.
Proof. exact: (Ppow_int b 0). Qed.

Lemma PX_neg b p :
  Ppow b (FieldEq.phi KX 0 1 +%R *%R -%R (BinNums.Zneg p))
  = (FieldEq.fpow KX 1 *%R b (BinNums.Npos p))^-1.
Proof. by rewrite phiE fpowE Ppow_int /= -invr_expz. Qed.

Definition QX : DField.dfield :=
  @DField.Build_dfield KX 0 1 +%R *%R (@fsubF KX) -%R (@fdivF KX) GRing.inv
    (mc_field_theory KX) cstX crdX fldX mpX nrmX DX (fun _ _ => 0) Ppow
    DX_add DX_mul DX_phi DX_cst DX_crd DX_comm
    (fun _ _ => False) (fun _ _ => False)
    (fun _ _ _ h => False_ind _ h) (fun _ _ _ h => False_ind _ h)
    (fun _ _ _ h => False_ind _ h) (fun _ _ _ h => False_ind _ h)
    (fun _ _ _ h => False_ind _ h) (fun _ _ _ h => False_ind _ h)
    (fun _ _ _ _ h => False_ind _ h)
    (fun _ => iff_refl False) (fun _ _ h => h)
    PX_pos PX_zero PX_neg.

Lemma two_neq0 : (1 + 1 : RX)%:F != 0 :> KX.
Proof.
by rewrite tofrac_eq0 -[1 + 1]/(2%:R) -mpolyC_nat mpolyC_eq0 Num.Theory.pnatr_eq0.
Qed.

Theorem dfield_inhabited : exists S : DField.dfield,
     DField.f1 S <> DField.f0 S
  /\ (forall lg i, (i < 3)%coq_nat -> DField.D S lg i (DField.crd S lg i) = DField.f1 S)
  /\ (exists a, DField.D S false 0 (DField.D S false 0 a) <> DField.f0 S)
  /\ (exists a, DField.D S false 0 a <> DField.f0 S /\ DField.D S true 0 a = DField.f0 S).
Proof.
exists QX; split; [|split; [|split]] => /=.
- by apply/eqP; rewrite oner_neq0.
- by move=> lg i /ltP li; rewrite DX_crd eqbE ltbE eqxx li.
- exists (('X_(idx false 0) ^+ 2 : RX)%:F).
  rewrite !DX_tofrac /= expr2 mdM !mderiv_var eqxx mul1r mulr1 mdD !mderiv_var eqxx.
  exact/eqP/two_neq0.
- exists (crdX false 0); split.
    by rewrite DX_crd /=; apply/eqP; rewrite oner_neq0.
  rewrite /crdX /= DX_tofrac /= mderiv_var.
  have -> : (idx true 0 == idx false 0) = false by rewrite -val_eqE /= !inordK.
  by rewrite rmorph0.
Qed.

Print Assumptions dfield_inhabited.
Check dfield_inhabited.
