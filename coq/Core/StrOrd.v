(* Order facts on Coq strings missing from the 8.16 standard library:
   String.leb is a total order (transitivity is proved here; totality and
   antisymmetry are in the library).  Python compares str by code point; for the
   ASCII names used by the harness this is String.compare. *)
From Coq Require Import String Ascii NArith Bool List.
Import ListNotations.

Lemma ascii_compare_refl a : Ascii.compare a a = Eq.
Proof. unfold Ascii.compare. apply N.compare_refl. Qed.

Lemma ascii_compare_lt_trans a b c :
  Ascii.compare a b = Lt -> Ascii.compare b c = Lt -> Ascii.compare a c = Lt.
Proof.
  unfold Ascii.compare. rewrite !N.compare_lt_iff. apply N.lt_trans.
Qed.

Lemma str_compare_refl s : String.compare s s = Eq.
Proof. induction s as [|a s IH]; simpl; [reflexivity|]. now rewrite ascii_compare_refl. Qed.

Lemma str_compare_eq s t : String.compare s t = Eq <-> s = t.
Proof. split; [apply String.compare_eq_iff|intros ->; apply str_compare_refl]. Qed.

Lemma str_compare_lt_trans : forall s t u,
  String.compare s t = Lt -> String.compare t u = Lt -> String.compare s u = Lt.
Proof.
  induction s as [|a s IH]; intros [|b t] [|c u]; simpl; try discriminate; auto.
  destruct (Ascii.compare a b) eqn:Hab; try discriminate.
  - apply Ascii.compare_eq_iff in Hab; subst b.
    destruct (Ascii.compare a c) eqn:Hac; auto. intros H1 H2. eapply IH; eauto.
  - intros _. destruct (Ascii.compare b c) eqn:Hbc; try discriminate.
    + apply Ascii.compare_eq_iff in Hbc; subst c. now rewrite Hab.
    + intros _. now rewrite (ascii_compare_lt_trans _ _ _ Hab Hbc).
Qed.

Lemma str_leb_refl s : String.leb s s = true.
Proof. unfold String.leb. now rewrite str_compare_refl. Qed.

Lemma str_leb_trans s t u :
  String.leb s t = true -> String.leb t u = true -> String.leb s u = true.
Proof.
  unfold String.leb.
  destruct (String.compare s t) eqn:Hst; try discriminate;
  destruct (String.compare t u) eqn:Htu; try discriminate; intros _ _.
  - apply str_compare_eq in Hst, Htu; subst. now rewrite str_compare_refl.
  - apply str_compare_eq in Hst; subst. now rewrite Htu.
  - apply str_compare_eq in Htu; subst. now rewrite Hst.
  - now rewrite (str_compare_lt_trans _ _ _ Hst Htu).
Qed.

Lemma str_leb_false_lt s t : String.leb s t = false -> String.leb t s = true.
Proof. intros H. destruct (String.leb_total s t) as [H'|H']; congruence. Qed.

Lemma str_ltb_leb s t : String.ltb s t = true <-> (String.leb s t = true /\ s <> t).
Proof.
  unfold String.ltb, String.leb. destruct (String.compare s t) eqn:H.
  - apply str_compare_eq in H. split; [discriminate|]. intros [_ Hne]. contradiction.
  - split; [|reflexivity]. intros _. split; [reflexivity|].
    intros ->. rewrite str_compare_refl in H. discriminate.
  - split; [discriminate|]. intros [Hf _]. discriminate.
Qed.
