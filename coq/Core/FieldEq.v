(* A verified decision procedure for equality of rational expressions in every field:
   the standard library's reflexive Field_theory normaliser, packaged as a boolean
   function [fcheck] with its soundness theorem [fcheck_sound] over an ABSTRACT field
   (Section variables; nothing is an Axiom).  [fcheck = true] is a proof of equality
   wherever the listed denominators do not vanish; [false] only means "not proved".
   Optional rewriting hypotheses [lpe] (pairs monomial = polynomial, e.g.
   s^2 = 1 - c^2) are supported as in the [field] tactic. *)
From Coq Require Import ZArith List Setoid Ring_theory Field_theory Ring_polynom InitialRing BinList.
Import ListNotations.

Definition zPE := PExpr Z.
Definition zFE := FExpr Z.

Definition fnorm (e : zFE) : linear Z :=
  Fnorm 0%Z 1%Z Z.add Z.mul Z.sub Z.opp Zeq_bool e.

Definition mkmon (lpe : list (zPE * zPE)) :=
  mk_monpol_list 0%Z 1%Z Z.add Z.mul Z.sub Z.opp Zeq_bool (triv_div 0%Z 1%Z Zeq_bool) lpe.

Definition pnorm (n : nat) (lpe : list (zPE * zPE)) (p : zPE) : Pol Z :=
  norm_subst 0%Z 1%Z Z.add Z.mul Z.sub Z.opp Zeq_bool (triv_div 0%Z 1%Z Zeq_bool) n (mkmon lpe) p.

Definition FUEL : nat := 100.

Definition fcheck_hyps (lpe : list (zPE * zPE)) (e1 e2 : zFE) : bool :=
  let n1 := fnorm e1 in
  let n2 := fnorm e2 in
  Peq Zeq_bool (pnorm FUEL lpe (PEmul (num n1) (denum n2)))
               (pnorm FUEL lpe (PEmul (num n2) (denum n1))).

Definition fcheck (e1 e2 : zFE) : bool := fcheck_hyps [] e1 e2.

Definition fconds (e1 e2 : zFE) : list zPE := condition (fnorm e1) ++ condition (fnorm e2).

(* ring-level check (no division): normal forms of polynomial expressions *)
Definition pcheck (p1 p2 : zPE) : bool :=
  Peq Zeq_bool (pnorm FUEL [] p1) (pnorm FUEL [] p2).

Section Sound.
  Variable F : Type.
  Variables (f0 f1 : F) (fadd fmul fsub : F -> F -> F) (fopp : F -> F) (fdiv : F -> F -> F) (finv : F -> F).
  Hypothesis Fth : field_theory f0 f1 fadd fmul fsub fopp fdiv finv (@eq F).

  Definition phi := gen_phiZ f0 f1 fadd fmul fopp.
  Let Rsth : Setoid_Theory F (@eq F) := @Eqsth F.
  Let Reqe : ring_eq_ext fadd fmul fopp (@eq F) := @Eq_ext F fadd fmul fopp.
  Let Rth := F_R Fth.
  Let AFth := F2AF Rsth Reqe Fth.
  Let CRm := gen_phiZ_morph Rsth Reqe Rth.
  Let powth := pow_N_th f1 fmul Rsth.

  Definition fpow (x : F) (n : N) : F := pow_N f1 fmul x n.

  Definition feval (l : list F) (e : zFE) : F :=
    FEeval f0 f1 fadd fmul fsub fopp fdiv finv phi (fun n : N => n) fpow l e.

  Definition peval (l : list F) (p : zPE) : F :=
    PEeval f0 f1 fadd fmul fsub fopp phi (fun n : N => n) fpow l p.

  Definition pcond (l : list F) (c : list zPE) : Prop :=
    PCond f0 f1 fadd fmul fsub fopp (@eq F) phi (fun n : N => n) fpow l c.

  Definition hyps_hold (l : list F) (lpe : list (zPE * zPE)) : Prop :=
    interp_PElist f0 f1 fadd fmul fsub fopp (@eq F) phi (fun n : N => n) fpow l lpe.

  Lemma SRinv_ext : forall p q : F, p = q -> finv p = finv q.
  Proof. intros p q ->. reflexivity. Qed.

  Theorem fcheck_hyps_sound l lpe e1 e2 :
    hyps_hold l lpe -> fcheck_hyps lpe e1 e2 = true -> pcond l (fconds e1 e2) ->
    feval l e1 = feval l e2.
  Proof.
    intros Hh Hc Hp.
    eapply (Field_correct Rsth Reqe SRinv_ext AFth CRm powth
              (triv_div_th Rsth Reqe (Rth_ARth Rsth Reqe Rth) CRm) FUEL l lpe e1 e2 Hh eq_refl eq_refl eq_refl).
    - exact Hc.
    - exact Hp.
  Qed.

  Theorem fcheck_sound l e1 e2 :
    fcheck e1 e2 = true -> pcond l (fconds e1 e2) -> feval l e1 = feval l e2.
  Proof. intros. eapply fcheck_hyps_sound; eauto. exact I. Qed.

  Theorem pcheck_sound l p1 p2 : pcheck p1 p2 = true -> peval l p1 = peval l p2.
  Proof.
    intros H.
    eapply (ring_correct Rsth Reqe (Rth_ARth Rsth Reqe Rth) CRm powth
              (triv_div_th Rsth Reqe (Rth_ARth Rsth Reqe Rth) CRm) FUEL l [] p1 p2 I).
    exact H.
  Qed.
End Sound.
