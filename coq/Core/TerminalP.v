(* Semantics of terminal expressions in an abstract differential field and the
   soundness of (i) the equivalence checker [tequiv] and (ii) symbolic
   differentiation [tD].  All structure is given by Section variables and
   hypotheses: after [End] every theorem is universally quantified over it. *)
From Coq Require Import String ZArith List Bool Arith PeanoNat Lia Setoid.
From Coq Require Import Ring_theory Field_theory Ring_polynom InitialRing BinList Field.
From V Require Import Core.FieldEq Core.Terminal.
Import ListNotations.

(* ------------------------------------------------ boolean equalities are sound *)
Lemma side_eqb_eq a b : side_eqb a b = true -> a = b.
Proof. destruct a, b; simpl; congruence. Qed.

Lemma fname_eqb_eq a b : fname_eqb a b = true -> a = b.
Proof. destruct a, b; simpl; try congruence. intros H. apply String.eqb_eq in H. now subst. Qed.

Lemma natlist_eqb_eq l : forall m, natlist_eqb l m = true -> l = m.
Proof.
  induction l as [|x r IH]; intros [|y s]; simpl; try congruence.
  intros H. apply andb_true_iff in H. destruct H as [H1 H2].
  apply Nat.eqb_eq in H1. apply IH in H2. now subst.
Qed.

Lemma natlist_eqb_refl l : natlist_eqb l l = true.
Proof. induction l; simpl; auto. now rewrite Nat.eqb_refl. Qed.

Ltac split_andb :=
  repeat match goal with
         | H : _ && _ = true |- _ => apply andb_true_iff in H; destruct H
         end.

Lemma atom_eqb_eq a b : atom_eqb a b = true -> a = b.
Proof.
  destruct a, b; simpl; try congruence; intros H; split_andb;
    repeat match goal with
           | H : Bool.eqb _ _ = true |- _ => apply Bool.eqb_prop in H
           | H : Nat.eqb _ _ = true |- _ => apply Nat.eqb_eq in H
           | H : String.eqb _ _ = true |- _ => apply String.eqb_eq in H
           | H : side_eqb _ _ = true |- _ => apply side_eqb_eq in H
           | H : natlist_eqb _ _ = true |- _ => apply natlist_eqb_eq in H
           end; subst; reflexivity.
Qed.

Lemma texpr_eqb_eq a : forall b, texpr_eqb a b = true -> a = b.
Proof.
  induction a; intros b; destruct b; simpl; try congruence; intros H; split_andb;
    repeat match goal with
           | H : Z.eqb _ _ = true |- _ => apply Z.eqb_eq in H
           | H : Pos.eqb _ _ = true |- _ => apply Pos.eqb_eq in H
           | H : N.eqb _ _ = true |- _ => apply N.eqb_eq in H
           | H : atom_eqb _ _ = true |- _ => apply atom_eqb_eq in H
           | H : fname_eqb _ _ = true |- _ => apply fname_eqb_eq in H
           | IH : forall b, texpr_eqb ?a b = true -> ?a = b, H : texpr_eqb ?a _ = true |- _ => apply IH in H
           end; subst; reflexivity.
Qed.

(* ------------------------------------------------------------ BinList.nth *)
Lemma binnth_succ {A} (d : A) p : forall l, BinList.nth d (Pos.succ p) l = BinList.nth d p (tl l).
Proof.
  induction p as [q IH|q IH|]; intros l; simpl.
  - rewrite IH. f_equal. rewrite jump_succ. simpl. now rewrite !jump_tl.
  - reflexivity.
  - reflexivity.
Qed.

Lemma binnth_of_succ_nat {A} (d : A) n : forall l, BinList.nth d (Pos.of_succ_nat n) l = List.nth n l d.
Proof.
  induction n as [|n IH]; intros l; simpl.
  - destruct l; reflexivity.
  - rewrite binnth_succ, IH. destruct l; simpl; auto. destruct n; reflexivity.
Qed.

Section Sem.
  Variable F : Type.
  Variables (f0 f1 : F) (fadd fmul fsub : F -> F -> F) (fopp : F -> F) (fdiv : F -> F -> F) (finv : F -> F).
  Hypothesis Fth : field_theory f0 f1 fadd fmul fsub fopp fdiv finv (@eq F).

  (* the environment: what the symbols denote *)
  Variable cst : string -> F.
  Variable crd : bool -> nat -> F.
  Variable fld : string -> nat -> side -> F.
  Variable mp : string -> nat -> F.
  Variable nrm : side -> nat -> F.
  Variable D : bool -> nat -> F -> F.
  Variable E : fname -> F -> F.
  Variable P : F -> F -> F.

  Notation phi := (phi F f0 f1 fadd fmul fopp).
  Notation fpw := (fpow F f1 fmul).

  Fixpoint iterN (n : nat) (g : F -> F) (x : F) : F :=
    match n with 0 => x | S k => g (iterN k g x) end.

  Fixpoint iterD (lg : bool) (i : nat) (al : list nat) (x : F) : F :=
    match al with [] => x | a :: r => iterN a (D lg i) (iterD lg (S i) r x) end.

  Definition aeval (a : atom) : F :=
    match a with
    | ACoord l i => crd l i
    | AConst n => cst n
    | AFld l f c s al => iterD l 0 al (fld f c s)
    | AMap m i al => iterD true 0 al (mp m i)
    | ANormal s i => nrm s i
    end.

  Fixpoint teval (t : texpr) : F :=
    match t with
    | TZ z => phi z
    | TQ p q => fdiv (phi p) (phi (Zpos q))
    | TAt a => aeval a
    | TAdd a b => fadd (teval a) (teval b)
    | TSub a b => fsub (teval a) (teval b)
    | TMul a b => fmul (teval a) (teval b)
    | TDiv a b => fdiv (teval a) (teval b)
    | TOpp a => fopp (teval a)
    | TInv a => finv (teval a)
    | TPowN a n => fpw (teval a) n
    | TFn f a => E f (teval a)
    | TPowG b e => P (teval b) (teval e)
    end.

  Notation fev := (feval F f0 f1 fadd fmul fsub fopp fdiv finv).
  Notation pev := (peval F f0 f1 fadd fmul fsub fopp).

  Lemma index_of_nth t tb d : In t tb -> List.nth (index_of t tb) (map teval tb) d = teval t.
  Proof.
    induction tb as [|x r IH]; simpl; [tauto|]. intros H.
    destruct (texpr_eqb t x) eqn:Eq.
    - apply texpr_eqb_eq in Eq. now subst.
    - destruct H as [->|H]; [|now apply IH].
      assert (R : forall u, texpr_eqb u u = true).
      { clear. induction u; simpl; rewrite ?IHu, ?IHu1, ?IHu2, ?Z.eqb_refl, ?Pos.eqb_refl, ?N.eqb_refl; auto.
        - destruct a; simpl; rewrite ?Nat.eqb_refl, ?String.eqb_refl, ?natlist_eqb_refl, ?Bool.eqb_reflx; auto;
            destruct s; auto.
        - destruct f; simpl; rewrite ?String.eqb_refl; auto. }
      rewrite R in Eq. discriminate.
  Qed.

  Lemma to_fexpr_sound tb t :
    (forall o, In o (opaques t) -> In o tb) -> fev (map teval tb) (to_fexpr tb t) = teval t.
  Proof.
    unfold FieldEq.feval.
    induction t; simpl; intros Hin;
      try (rewrite ?IHt, ?IHt1, ?IHt2; auto; intros; apply Hin; apply in_or_app; auto; fail);
      try reflexivity;
      try (rewrite binnth_of_succ_nat; apply index_of_nth; apply Hin; now left).
  Qed.

  Lemma to_pexpr_sound tb t pe :
    (forall o, In o (opaques t) -> In o tb) -> to_pexpr tb t = Some pe -> pev (map teval tb) pe = teval t.
  Proof.
    unfold FieldEq.peval. revert pe.
    induction t; simpl; intros pe Hin Hp; try discriminate;
      try (inversion Hp; subst; simpl; try reflexivity;
           rewrite binnth_of_succ_nat; apply index_of_nth; apply Hin; now left).
    all: repeat match goal with
           | H : match to_pexpr ?tb' ?x with _ => _ end = Some _ |- _ => destruct (to_pexpr tb' x) eqn:?; try discriminate
           end; inversion Hp; subst; simpl.
    - rewrite (IHt1 z), (IHt2 z0); auto; intros; apply Hin; apply in_or_app; auto.
    - rewrite (IHt1 z), (IHt2 z0); auto; intros; apply Hin; apply in_or_app; auto.
    - rewrite (IHt1 z), (IHt2 z0); auto; intros; apply Hin; apply in_or_app; auto.
    - rewrite (IHt z); auto.
    - rewrite (IHt z); auto.
  Qed.

  (* where the denominators met by the normaliser do not vanish *)
  Definition denoms_ok (a b : texpr) : Prop :=
    pcond F f0 f1 fadd fmul fsub fopp (map teval (opaques a ++ opaques b)) (tconds a b).

  Theorem tequiv_sound a b : tequiv a b = true -> denoms_ok a b -> teval a = teval b.
  Proof.
    unfold tequiv, denoms_ok, tconds. intros Hc Hd.
    set (tb := opaques a ++ opaques b) in *.
    rewrite <- (to_fexpr_sound tb a), <- (to_fexpr_sound tb b).
    - eapply fcheck_sound; eauto.
    - intros o Ho. apply in_or_app. now right.
    - intros o Ho. apply in_or_app. now left.
  Qed.

  Definition hyps_true (hs : list (texpr * texpr)) : Prop :=
    Forall (fun h => teval (fst h) = teval (snd h)) hs.

  Definition denoms_ok_hyps (hs : list (texpr * texpr)) (a b : texpr) : Prop :=
    pcond F f0 f1 fadd fmul fsub fopp (map teval (opaques a ++ opaques b ++ hyp_opaques hs)) (tconds_hyps hs a b).

  Lemma hyps_to_pe_sound tb hs lpe :
    (forall o, In o (hyp_opaques hs) -> In o tb) -> hyps_true hs -> hyps_to_pe tb hs = Some lpe ->
    hyps_hold F f0 f1 fadd fmul fsub fopp (map teval tb) lpe.
  Proof.
    revert lpe. induction hs as [|[l r] rest IH]; simpl; intros lpe Hin Ht Hp.
    - inversion Hp. exact I.
    - destruct (to_pexpr tb l) as [pl|] eqn:El; try discriminate.
      destruct (to_pexpr tb r) as [pr|] eqn:Er; try discriminate.
      destruct (hyps_to_pe tb rest) as [ps|] eqn:Es; try discriminate.
      inversion Hp; subst. inversion Ht as [|? ? Hh Hrest]; subst. simpl in Hh.
      assert (Hrec : hyps_hold F f0 f1 fadd fmul fsub fopp (map teval tb) ps).
      { apply IH; auto. intros o Ho. apply Hin. unfold hyp_opaques in *. simpl. apply in_or_app. now right. }
      assert (Hhead : pev (map teval tb) pl = pev (map teval tb) pr).
      { rewrite (to_pexpr_sound tb l pl), (to_pexpr_sound tb r pr); auto;
          intros o Ho; apply Hin; unfold hyp_opaques; simpl; apply in_or_app; left; apply in_or_app; auto. }
      unfold hyps_hold in *. simpl. destruct ps; [exact Hhead|split; [exact Hhead|exact Hrec]].
  Qed.

  Theorem tequiv_hyps_sound hs a b :
    hyps_true hs -> tequiv_hyps hs a b = true -> denoms_ok_hyps hs a b -> teval a = teval b.
  Proof.
    unfold tequiv_hyps, denoms_ok_hyps, tconds_hyps. intros Hh Hc Hd.
    set (tb := opaques a ++ opaques b ++ hyp_opaques hs) in *.
    destruct (hyps_to_pe tb hs) as [lpe|] eqn:El; [|discriminate].
    rewrite <- (to_fexpr_sound tb a), <- (to_fexpr_sound tb b).
    - eapply fcheck_hyps_sound; eauto. eapply hyps_to_pe_sound; eauto.
      intros o Ho. apply in_or_app. right. apply in_or_app. now right.
    - intros o Ho. apply in_or_app. right. apply in_or_app. now left.
    - intros o Ho. apply in_or_app. now left.
  Qed.

  (* ===================================================== differentiation *)
  Add Field FF : Fth.
  Infix "+" := fadd. Infix "*" := fmul. Infix "-" := fsub. Infix "/" := fdiv.
  Notation "- x" := (fopp x).
  Notation "0" := f0. Notation "1" := f1.

  Hypothesis D_add : forall lg i a b, D lg i (a + b) = D lg i a + D lg i b.
  Hypothesis D_mul : forall lg i a b, D lg i (a * b) = D lg i a * b + a * D lg i b.
  Hypothesis D_phi : forall lg i z, D lg i (phi z) = 0.
  Hypothesis D_cst : forall lg i n, D lg i (cst n) = 0.
  Hypothesis D_crd : forall lg i j, D lg i (crd lg j) = if Nat.eqb i j && Nat.ltb j 3 then 1 else 0.
  Hypothesis D_comm : forall lg i j a, D lg i (D lg j a) = D lg j (D lg i a).
  (* [Edom f a]: the composition f o a exists in the field (e.g. a has no pole);
     [Pdom b e]: the general power b^e exists.  Elementary functions are partial. *)
  Variable Edom : fname -> F -> Prop.
  Variable Pdom : F -> F -> Prop.
  Hypothesis D_sin : forall lg i a, Edom Fsin a -> D lg i (E Fsin a) = E Fcos a * D lg i a.
  Hypothesis D_cos : forall lg i a, Edom Fcos a -> D lg i (E Fcos a) = - (E Fsin a * D lg i a).
  Hypothesis D_tan : forall lg i a, Edom Ftan a -> D lg i (E Ftan a) = (1 + E Ftan a * E Ftan a) * D lg i a.
  Hypothesis D_exp : forall lg i a, Edom Fexp a -> D lg i (E Fexp a) = E Fexp a * D lg i a.
  Hypothesis D_log : forall lg i a, Edom Flog a -> a <> 0 -> D lg i (E Flog a) = D lg i a / a.
  Hypothesis D_sqrt : forall lg i a, Edom Fsqrt a -> phi 2 * E Fsqrt a <> 0 -> D lg i (E Fsqrt a) = D lg i a / (phi 2 * E Fsqrt a).
  Hypothesis D_pow : forall lg i b e, Pdom b e -> b <> 0 ->
    D lg i (P b e) = P b e * (D lg i e * E Flog b + e * D lg i b / b).
  (* domains are closed under what the derivative formulas mention *)
  Hypothesis Edom_sin_cos : forall a, Edom Fsin a <-> Edom Fcos a.
  Hypothesis Pdom_log : forall b e, Pdom b e -> Edom Flog b.

  Lemma D_zero lg i : D lg i 0 = 0.
  Proof. change 0 with (phi 0%Z). apply D_phi. Qed.

  Lemma D_opp lg i a : D lg i (- a) = - D lg i a.
  Proof.
    assert (H : D lg i (- a) + D lg i a = 0).
    { rewrite <- D_add. replace (- a + a) with 0 by ring. apply D_zero. }
    replace (D lg i (- a)) with (D lg i (- a) + D lg i a - D lg i a) by ring. rewrite H. ring.
  Qed.

  Lemma D_sub lg i a b : D lg i (a - b) = D lg i a - D lg i b.
  Proof. replace (a - b) with (a + - b) by ring. rewrite D_add, D_opp. ring. Qed.

  Lemma D_div lg i a b : b <> 0 -> D lg i (a / b) = (D lg i a * b - a * D lg i b) / (b * b).
  Proof.
    intros Hb. assert (H : D lg i a = D lg i (a / b) * b + (a / b) * D lg i b).
    { rewrite <- D_mul. f_equal. field. exact Hb. }
    rewrite H. field. exact Hb.
  Qed.

  Lemma D_quot_const lg i x y : y <> 0 -> D lg i x = 0 -> D lg i y = 0 -> D lg i (x / y) = phi 0%Z.
  Proof. intros Hy H1 H2. rewrite D_div by exact Hy. rewrite H1, H2. simpl. field. exact Hy. Qed.

  Lemma D_inv lg i a : a <> 0 -> D lg i (finv a) = - (D lg i a / (a * a)).
  Proof.
    intros Ha. replace (finv a) with (1 / a) by (field; exact Ha).
    rewrite D_div by exact Ha. change 1 with (phi 1%Z). rewrite D_phi. simpl. field. exact Ha.
  Qed.

  Lemma pow_pos_succ' a p : pow_pos fmul a (Pos.succ p) = a * pow_pos fmul a p.
  Proof. induction p; simpl; rewrite ?IHp; ring. Qed.

  Lemma pow_pred_N a p : a * fpw a (Pos.pred_N p) = pow_pos fmul a p.
  Proof.
    destruct (Pos.eq_dec p 1) as [->|Hne].
    - simpl. unfold fpow. simpl. ring.
    - destruct (Pos.succ_pred_or p) as [->|Hs]; [congruence|].
      rewrite <- Hs at 2. rewrite pow_pos_succ'.
      replace (Pos.pred_N p) with (Npos (Pos.pred p)); [reflexivity|].
      rewrite <- Hs at 2. now rewrite Pos.pred_N_succ.
  Qed.

  Lemma D_pow_pos lg i a p :
    D lg i (pow_pos fmul a p) = phi (Zpos p) * fpw a (Pos.pred_N p) * D lg i a.
  Proof.
    induction p using Pos.peano_ind.
    - simpl. unfold fpow. simpl. ring.
    - rewrite Pos.pred_N_succ.
      rewrite pow_pos_succ', D_mul, IHp.
      assert (E2 : phi (Zpos (Pos.succ p)) = phi (Zpos p) + 1).
      { rewrite <- Pos.add_1_r.
        pose proof (gen_phiZ_morph (Eqsth F) (Eq_ext fadd fmul fopp) (F_R Fth)) as M.
        change (Zpos (p + 1)) with (Zpos p + 1)%Z.
        rewrite (morph_add M). reflexivity. }
      rewrite E2. change (fpw a (N.pos p)) with (pow_pos fmul a p).
      rewrite <- (pow_pred_N a p). ring.
  Qed.

  (* all denominators (and arguments of log / bases of general powers) are non-zero *)
  Fixpoint defined (t : texpr) : Prop :=
    match t with
    | TZ _ | TAt _ => True
    | TQ _ q => phi (Zpos q) <> 0
    | TAdd a b | TSub a b | TMul a b => defined a /\ defined b
    | TDiv a b => defined a /\ defined b /\ teval b <> 0
    | TOpp a | TPowN a _ => defined a
    | TInv a => defined a /\ teval a <> 0
    | TFn f a => defined a /\ Edom f (teval a) /\
                 match f with
                 | Flog => teval a <> 0
                 | Fsqrt => phi 2 * E Fsqrt (teval a) <> 0
                 | _ => True
                 end
    | TPowG b e => defined b /\ defined e /\ Pdom (teval b) (teval e) /\ teval b <> 0
    end.

  Lemma iterN_D_comm lg j k n y : D lg j (iterN n (D lg k) y) = iterN n (D lg k) (D lg j y).
  Proof. induction n; simpl; auto. now rewrite D_comm, IHn. Qed.

  Lemma iterD_D_comm lg j al : forall k x, D lg j (iterD lg k al x) = iterD lg k al (D lg j x).
  Proof. induction al as [|a r IH]; intros k x; simpl; auto. now rewrite iterN_D_comm, IH. Qed.

  Lemma iterD_bump lg i : forall al k x, iterD lg k (bump i al) x = D lg (k + i)%nat (iterD lg k al x).
  Proof.
    induction i as [|i IH]; intros [|a r] k x; simpl.
    - now rewrite Nat.add_0_r.
    - now rewrite Nat.add_0_r.
    - rewrite IH. simpl. now rewrite Nat.add_succ_r.
    - rewrite IH. rewrite iterN_D_comm. now rewrite Nat.add_succ_r.
  Qed.

  Lemma iterD_zero lg al : all_zero al = true -> forall k x, iterD lg k al x = x.
  Proof.
    induction al as [|a r IH]; simpl; intros H k x; auto.
    apply andb_true_iff in H. destruct H as [H1 H2]. destruct a; [|discriminate]. simpl. now apply IH.
  Qed.

  Lemma bump_zero_iterD lg i al k x : all_zero al = true -> iterD lg k (bump i al) x = D lg (k + i)%nat x.
  Proof.
    revert al k. induction i as [|i IH]; intros [|a r] k H; simpl in *.
    - now rewrite Nat.add_0_r.
    - apply andb_true_iff in H. destruct H as [H1 H2]. destruct a; [|discriminate]. simpl.
      rewrite iterD_zero by auto. now rewrite Nat.add_0_r.
    - rewrite IH by auto. now rewrite Nat.add_succ_r.
    - apply andb_true_iff in H. destruct H as [H1 H2]. destruct a; [|discriminate]. simpl.
      rewrite IH by auto. now rewrite Nat.add_succ_r.
  Qed.

  Lemma dAtom_sound lg i a t' : dAtom lg i a = Some t' -> teval t' = D lg i (aeval a).
  Proof.
    destruct a as [l j|n|l f c s al|m j al|s j]; simpl; intros H.
    - destruct (Bool.eqb l lg) eqn:El; [|discriminate]. apply Bool.eqb_prop in El. subst l.
      inversion H. rewrite D_crd. destruct (Nat.eqb i j && Nat.ltb j 3); reflexivity.
    - inversion H. simpl. now rewrite D_cst.
    - destruct (all_zero al) eqn:Ez; simpl in H.
      + inversion H. simpl. rewrite bump_zero_iterD by auto. now rewrite (iterD_zero l al Ez).
      + destruct (Bool.eqb l lg) eqn:El; [|discriminate]. apply Bool.eqb_prop in El. subst l.
        inversion H. simpl. now rewrite iterD_bump.
    - destruct lg; [|discriminate]. inversion H. simpl. now rewrite iterD_bump.
    - discriminate.
  Qed.

  Theorem tD_sound lg i t : forall t', tD lg i t = Some t' -> defined t -> teval t' = D lg i (teval t).
  Proof.
    induction t; simpl; intros t' H Hd.
    - inversion H. simpl. now rewrite D_phi.
    - inversion H. symmetry. apply (D_quot_const lg i (phi p) (phi (Zpos q))); auto.
    - now apply dAtom_sound.
    - destruct (tD lg i t1), (tD lg i t2); try discriminate. inversion H. simpl.
      rewrite D_add, (IHt1 _ eq_refl), (IHt2 _ eq_refl); tauto.
    - destruct (tD lg i t1), (tD lg i t2); try discriminate. inversion H. simpl.
      rewrite D_sub, (IHt1 _ eq_refl), (IHt2 _ eq_refl); tauto.
    - destruct (tD lg i t1), (tD lg i t2); try discriminate. inversion H. simpl.
      rewrite D_mul, (IHt1 _ eq_refl), (IHt2 _ eq_refl); tauto.
    - destruct (tD lg i t1), (tD lg i t2); try discriminate. inversion H. simpl.
      destruct Hd as (Hd1 & Hd2 & Hn).
      rewrite D_div by exact Hn. now rewrite (IHt1 _ eq_refl), (IHt2 _ eq_refl).
    - destruct (tD lg i t); try discriminate. inversion H. simpl. rewrite D_opp, (IHt _ eq_refl); auto.
    - destruct (tD lg i t); try discriminate. inversion H. simpl. destruct Hd as [Hd Hn].
      rewrite D_inv by exact Hn. now rewrite (IHt _ eq_refl).
    - destruct n as [|p].
      + inversion H. simpl. change (fpw (teval t) 0%N) with 1. change 1 with (phi 1%Z). now rewrite D_phi.
      + destruct (tD lg i t); try discriminate. inversion H. simpl.
        rewrite (IHt _ eq_refl) by exact Hd. rewrite D_pow_pos. reflexivity.
    - destruct Hd as (Hd & Hdom & Hf). destruct (tD lg i t) as [da|]; try discriminate.
      specialize (IHt _ eq_refl Hd).
      destruct f; inversion H; simpl; rewrite IHt.
      + now rewrite D_sin.
      + now rewrite D_cos.
      + now rewrite D_tan.
      + now rewrite D_exp.
      + now rewrite D_log.
      + now rewrite D_sqrt.
    - destruct Hd as (Hb & He & Hdom & Hn).
      destruct (tD lg i t1), (tD lg i t2); try discriminate. inversion H. simpl.
      rewrite (IHt1 _ eq_refl), (IHt2 _ eq_refl) by auto. now rewrite D_pow.
  Qed.

  Lemma mul_nonzero a b : a <> 0 -> b <> 0 -> a * b <> 0.
  Proof.
    intros Ha Hb H. apply Ha.
    replace a with (a * b * finv b) by (field; exact Hb). rewrite H. ring.
  Qed.

  Lemma dAtom_defined lg i a t' : dAtom lg i a = Some t' -> defined t'.
  Proof.
    destruct a; simpl; intros H;
      repeat match goal with
             | H : (if ?c then _ else _) = Some _ |- _ => destruct c; try discriminate
             end; inversion H; simpl; auto.
    destruct (Nat.eqb i i0 && Nat.ltb i0 3); simpl; auto.
  Qed.

  Theorem tD_defined lg i t : forall t', tD lg i t = Some t' -> defined t -> defined t'.
  Proof.
    induction t; simpl; intros t' H Hd.
    - inversion H. exact I.
    - inversion H. exact I.
    - eapply dAtom_defined; eauto.
    - destruct (tD lg i t1), (tD lg i t2); try discriminate. inversion H. simpl. split; [apply IHt1|apply IHt2]; tauto.
    - destruct (tD lg i t1), (tD lg i t2); try discriminate. inversion H. simpl. split; [apply IHt1|apply IHt2]; tauto.
    - destruct (tD lg i t1), (tD lg i t2); try discriminate. inversion H. simpl.
      destruct Hd. repeat split; auto.
    - destruct (tD lg i t1), (tD lg i t2); try discriminate. inversion H. simpl.
      destruct Hd as (Hd1 & Hd2 & Hn). repeat split; auto. now apply mul_nonzero.
    - destruct (tD lg i t); try discriminate. inversion H. simpl. auto.
    - destruct (tD lg i t); try discriminate. inversion H. simpl. destruct Hd as [Hd1 Hn].
      repeat split; auto. now apply mul_nonzero.
    - destruct n as [|p]; [inversion H; exact I|].
      destruct (tD lg i t); try discriminate. inversion H. simpl. auto.
    - destruct Hd as (Hd & Hdom & Hf). destruct (tD lg i t) as [da|]; try discriminate.
      specialize (IHt _ eq_refl Hd).
      destruct f; inversion H; simpl; repeat split; auto; try (now apply Edom_sin_cos).
    - destruct Hd as (Hb & He & Hdom & Hn).
      destruct (tD lg i t1), (tD lg i t2); try discriminate. inversion H. simpl.
      repeat split; auto. now apply (Pdom_log _ _ Hdom).
  Qed.
End Sem.
