(* Terminal expressions: the common expression language of the expression
   properties (C01..C11, C16).  Definitions only (syntax, boolean equality,
   conversion to the field checker's FExpr, symbolic differentiation);
   semantics and proofs are in Core/TerminalP.v. *)
From Coq Require Import String ZArith List Bool Arith PeanoNat Field_theory Ring_polynom.
From V Require Import Core.FieldEq.
Import ListNotations.

Inductive side := SNone | SMinus | SPlus.
Inductive fname := Fsin | Fcos | Ftan | Fexp | Flog | Fsqrt | Fabs | Fother (s : string).

(* Leaves.  [lg] tells which family of derivations a multi-index refers to:
   false = physical (dx, dy, dz), true = logical (dx1, dx2, dx3). *)
Inductive atom :=
| ACoord (lg : bool) (i : nat)                                 (* coordinate function *)
| AConst (name : string)                                       (* symbolic constant *)
| AFld (lg : bool) (f : string) (c : nat) (s : side) (al : list nat)
      (* d^al of component c of field f restricted to side s *)
| AMap (m : string) (i : nat) (al : list nat)                  (* logical derivative of a mapping component *)
| ANormal (s : side) (i : nat).                                (* component of the unit normal *)

Inductive texpr :=
| TZ (z : Z)
| TQ (p : Z) (q : positive)
| TAt (a : atom)
| TAdd (a b : texpr) | TSub (a b : texpr) | TMul (a b : texpr) | TDiv (a b : texpr)
| TOpp (a : texpr) | TInv (a : texpr)
| TPowN (a : texpr) (n : N)
| TFn (f : fname) (a : texpr)
| TPowG (b e : texpr).

(* ------------------------------------------------------------ boolean equality *)
Definition side_eqb (a b : side) : bool :=
  match a, b with SNone, SNone | SMinus, SMinus | SPlus, SPlus => true | _, _ => false end.

Definition fname_eqb (a b : fname) : bool :=
  match a, b with
  | Fsin, Fsin | Fcos, Fcos | Ftan, Ftan | Fexp, Fexp | Flog, Flog | Fsqrt, Fsqrt | Fabs, Fabs => true
  | Fother s, Fother t => String.eqb s t
  | _, _ => false
  end.

Fixpoint natlist_eqb (l m : list nat) : bool :=
  match l, m with
  | [], [] => true
  | x :: r, y :: s => Nat.eqb x y && natlist_eqb r s
  | _, _ => false
  end.

Definition atom_eqb (a b : atom) : bool :=
  match a, b with
  | ACoord l i, ACoord l' i' => Bool.eqb l l' && Nat.eqb i i'
  | AConst n, AConst n' => String.eqb n n'
  | AFld l f c s al, AFld l' f' c' s' al' =>
      Bool.eqb l l' && String.eqb f f' && Nat.eqb c c' && side_eqb s s' && natlist_eqb al al'
  | AMap m i al, AMap m' i' al' => String.eqb m m' && Nat.eqb i i' && natlist_eqb al al'
  | ANormal s i, ANormal s' i' => side_eqb s s' && Nat.eqb i i'
  | _, _ => false
  end.

Fixpoint texpr_eqb (a b : texpr) : bool :=
  match a, b with
  | TZ z, TZ z' => Z.eqb z z'
  | TQ p q, TQ p' q' => Z.eqb p p' && Pos.eqb q q'
  | TAt x, TAt y => atom_eqb x y
  | TAdd a1 a2, TAdd b1 b2 | TSub a1 a2, TSub b1 b2 | TMul a1 a2, TMul b1 b2
  | TDiv a1 a2, TDiv b1 b2 | TPowG a1 a2, TPowG b1 b2 => texpr_eqb a1 b1 && texpr_eqb a2 b2
  | TOpp a1, TOpp b1 | TInv a1, TInv b1 => texpr_eqb a1 b1
  | TPowN a1 n, TPowN b1 m => texpr_eqb a1 b1 && N.eqb n m
  | TFn f a1, TFn g b1 => fname_eqb f g && texpr_eqb a1 b1
  | _, _ => false
  end.

(* ------------------------------------------------- conversion to FExpr Z *)
(* Opaque sub-terms (leaves, function applications, general powers) become
   variables of the field checker; they are identified syntactically. *)
Fixpoint index_of (t : texpr) (tb : list texpr) : nat :=
  match tb with
  | [] => 0
  | x :: r => if texpr_eqb t x then 0 else S (index_of t r)
  end.

Fixpoint opaques (t : texpr) : list texpr :=
  match t with
  | TZ _ | TQ _ _ => []
  | TAt _ | TFn _ _ | TPowG _ _ => [t]
  | TAdd a b | TSub a b | TMul a b | TDiv a b => opaques a ++ opaques b
  | TOpp a | TInv a | TPowN a _ => opaques a
  end.

Fixpoint to_fexpr (tb : list texpr) (t : texpr) : zFE :=
  match t with
  | TZ z => FEc z
  | TQ p q => FEdiv (FEc p) (FEc (Zpos q))
  | TAt _ | TFn _ _ | TPowG _ _ => FEX Z (Pos.of_succ_nat (index_of t tb))
  | TAdd a b => FEadd (to_fexpr tb a) (to_fexpr tb b)
  | TSub a b => FEsub (to_fexpr tb a) (to_fexpr tb b)
  | TMul a b => FEmul (to_fexpr tb a) (to_fexpr tb b)
  | TDiv a b => FEdiv (to_fexpr tb a) (to_fexpr tb b)
  | TOpp a => FEopp (to_fexpr tb a)
  | TInv a => FEinv (to_fexpr tb a)
  | TPowN a n => FEpow (to_fexpr tb a) n
  end.

(* division-free terms as ring expressions (for rewriting hypotheses) *)
Fixpoint to_pexpr (tb : list texpr) (t : texpr) : option zPE :=
  match t with
  | TZ z => Some (PEc z)
  | TAt _ | TFn _ _ | TPowG _ _ => Some (PEX Z (Pos.of_succ_nat (index_of t tb)))
  | TAdd a b => match to_pexpr tb a, to_pexpr tb b with Some x, Some y => Some (PEadd x y) | _, _ => None end
  | TSub a b => match to_pexpr tb a, to_pexpr tb b with Some x, Some y => Some (PEsub x y) | _, _ => None end
  | TMul a b => match to_pexpr tb a, to_pexpr tb b with Some x, Some y => Some (PEmul x y) | _, _ => None end
  | TOpp a => match to_pexpr tb a with Some x => Some (PEopp x) | None => None end
  | TPowN a n => match to_pexpr tb a with Some x => Some (PEpow x n) | None => None end
  | _ => None
  end.

Definition tequiv (a b : texpr) : bool :=
  let tb := opaques a ++ opaques b in
  fcheck (to_fexpr tb a) (to_fexpr tb b).

Definition tconds (a b : texpr) : list zPE :=
  let tb := opaques a ++ opaques b in
  fconds (to_fexpr tb a) (to_fexpr tb b).

(* with rewriting hypotheses  lhs = rhs  (lhs a monomial), e.g. sin(a)^2 = 1 - cos(a)^2 *)
Fixpoint hyps_to_pe (tb : list texpr) (hs : list (texpr * texpr)) : option (list (zPE * zPE)) :=
  match hs with
  | [] => Some []
  | (l, r) :: rest =>
      match to_pexpr tb l, to_pexpr tb r, hyps_to_pe tb rest with
      | Some pl, Some pr, Some ps => Some ((pl, pr) :: ps)
      | _, _, _ => None
      end
  end.

Definition hyp_opaques (hs : list (texpr * texpr)) : list texpr :=
  flat_map (fun h => opaques (fst h) ++ opaques (snd h)) hs.

Definition tequiv_hyps (hs : list (texpr * texpr)) (a b : texpr) : bool :=
  let tb := opaques a ++ opaques b ++ hyp_opaques hs in
  match hyps_to_pe tb hs with
  | Some lpe => fcheck_hyps lpe (to_fexpr tb a) (to_fexpr tb b)
  | None => false
  end.

Definition tconds_hyps (hs : list (texpr * texpr)) (a b : texpr) : list zPE :=
  let tb := opaques a ++ opaques b ++ hyp_opaques hs in
  fconds (to_fexpr tb a) (to_fexpr tb b).

(* ---------------------------------------------- symbolic differentiation *)
Fixpoint bump (i : nat) (al : list nat) : list nat :=
  match i, al with
  | 0, [] => [1]
  | 0, a :: r => S a :: r
  | S i', [] => 0 :: bump i' []
  | S i', a :: r => a :: bump i' r
  end.

Definition all_zero (al : list nat) : bool := forallb (Nat.eqb 0) al.

Definition Zero := TZ 0.
Definition One := TZ 1.

(* derivative of a leaf with respect to coordinate i of the family lg;
   None = the model refuses (mixed physical/logical chain, normal vector) *)
Definition dAtom (lg : bool) (i : nat) (a : atom) : option texpr :=
  match a with
  | ACoord l j => if Bool.eqb l lg then Some (if Nat.eqb i j && Nat.ltb j 3 then One else Zero) else None
  | AConst _ => Some Zero
  | AFld l f c s al =>
      if all_zero al || Bool.eqb l lg then Some (TAt (AFld lg f c s (bump i al))) else None
  | AMap m j al => if lg then Some (TAt (AMap m j (bump i al))) else None
  | ANormal _ _ => None
  end.

Definition omap2 {A B C} (f : A -> B -> C) (x : option A) (y : option B) : option C :=
  match x, y with Some a, Some b => Some (f a b) | _, _ => None end.

Fixpoint tD (lg : bool) (i : nat) (t : texpr) : option texpr :=
  match t with
  | TZ _ | TQ _ _ => Some Zero
  | TAt a => dAtom lg i a
  | TAdd a b => omap2 TAdd (tD lg i a) (tD lg i b)
  | TSub a b => omap2 TSub (tD lg i a) (tD lg i b)
  | TOpp a => option_map TOpp (tD lg i a)
  | TMul a b => omap2 (fun da db => TAdd (TMul da b) (TMul a db)) (tD lg i a) (tD lg i b)
  | TDiv a b => omap2 (fun da db => TDiv (TSub (TMul da b) (TMul a db)) (TMul b b)) (tD lg i a) (tD lg i b)
  | TInv a => option_map (fun da => TOpp (TDiv da (TMul a a))) (tD lg i a)
  | TPowN a n =>
      match n with
      | N0 => Some Zero
      | Npos p => option_map (fun da => TMul (TMul (TZ (Zpos p)) (TPowN a (Pos.pred_N p))) da) (tD lg i a)
      end
  | TFn f a =>
      match tD lg i a with
      | None => None
      | Some da =>
          match f with
          | Fsin => Some (TMul (TFn Fcos a) da)
          | Fcos => Some (TOpp (TMul (TFn Fsin a) da))
          | Ftan => Some (TMul (TAdd One (TMul (TFn Ftan a) (TFn Ftan a))) da)
          | Fexp => Some (TMul (TFn Fexp a) da)
          | Flog => Some (TDiv da a)
          | Fsqrt => Some (TDiv da (TMul (TZ 2) (TFn Fsqrt a)))
          | _ => None
          end
      end
  | TPowG b e =>
      omap2 (fun db de => TMul (TPowG b e) (TAdd (TMul de (TFn Flog b)) (TDiv (TMul e db) b)))
            (tD lg i b) (tD lg i e)
  end.
