(* The classical definitions of the vector-calculus operators, written directly with
   the reference derivative [tD] on tensors of terminal expressions.  This file is the
   ORACLE of C01 / C02 / C03 / C11: short, meant to be read.  Conventions are the
   library's documented ones (sympde/calculus/core.py docstrings and the *_kd tables):
     grad of a scalar  = column (d_i f)_i
     grad of a vector  = matrix (d_i F_j)_{ij}   (row i = d_i of every component: the library's
                         convention, so that the Jacobian of F is the TRANSPOSE of grad F)
     div of a vector   = sum_i d_i F_i ;  div of a matrix = (sum_i d_i M_ij)_j  (column-wise, so that
                         div(grad F) is the component-wise Laplacian)
     curl (3D), curl of a vector in 2D = scalar d_x F_y - d_y F_x, rot of a scalar in 2D = (d_y f, -d_x f)
     laplace = sum_i d_i d_i ; hessian = (d_i d_j f)_{ij} ; bracket {f,g} = d_x f d_y g - d_y f d_x g
     dot / inner = sum of entry-wise products ; cross (2D scalar, 3D vector) ; outer = (a_i b_j)_{ij}
     convect(F, G) = (F . grad) G . *)
From Coq Require Import String ZArith List Bool Arith.
From V Require Import Core.Terminal.
Import ListNotations.

Inductive tensor :=
| Sc (t : texpr)                       (* scalar *)
| Vec (l : list texpr)                 (* vector (column) *)
| Mat (rows : list (list texpr)).      (* matrix, row major *)

Definition lg_dim := (bool * nat)%type.    (* (logical?, dimension) *)

Fixpoint seq0 (n : nat) : list nat := match n with 0 => [] | S k => seq0 k ++ [k] end.

Fixpoint sequence {A} (l : list (option A)) : option (list A) :=
  match l with
  | [] => Some []
  | Some x :: r => option_map (cons x) (sequence r)
  | None :: _ => None
  end.

Fixpoint tsum (l : list texpr) : texpr :=
  match l with [] => TZ 0 | [x] => x | x :: r => TAdd x (tsum r) end.

Definition dd (lg : bool) (i : nat) (t : texpr) : option texpr := tD lg i t.
Definition dd2 (lg : bool) (i j : nat) (t : texpr) : option texpr :=
  match tD lg j t with Some u => tD lg i u | None => None end.

Definition grad_s (lg : bool) (d : nat) (f : texpr) : option tensor :=
  option_map Vec (sequence (map (fun i => dd lg i f) (seq0 d))).

Definition grad_v (lg : bool) (d : nat) (F : list texpr) : option tensor :=
  option_map Mat (sequence (map (fun i => sequence (map (fun Fj => dd lg i Fj) F)) (seq0 d))).

Definition div_v (lg : bool) (d : nat) (F : list texpr) : option tensor :=
  option_map (fun l => Sc (tsum l))
    (sequence (map (fun i => dd lg i (nth i F (TZ 0))) (seq0 d))).

Definition div_m (lg : bool) (d : nat) (M : list (list texpr)) : option tensor :=
  let ncols := match M with [] => 0 | r :: _ => length r end in
  option_map Vec
    (sequence (map (fun j => option_map tsum
                   (sequence (map (fun i => dd lg i (nth j (nth i M []) (TZ 0))) (seq0 d)))) (seq0 ncols))).

Definition comp (F : list texpr) (i : nat) : texpr := nth i F (TZ 0).

Definition omap2 {A B C} (f : A -> B -> C) (x : option A) (y : option B) : option C :=
  match x, y with Some a, Some b => Some (f a b) | _, _ => None end.

Definition curl_v (lg : bool) (d : nat) (F : list texpr) : option tensor :=
  match d with
  | 2 => option_map Sc (omap2 TSub (dd lg 0 (comp F 1)) (dd lg 1 (comp F 0)))
  | 3 =>
      match omap2 TSub (dd lg 1 (comp F 2)) (dd lg 2 (comp F 1)),
            omap2 TSub (dd lg 2 (comp F 0)) (dd lg 0 (comp F 2)),
            omap2 TSub (dd lg 0 (comp F 1)) (dd lg 1 (comp F 0)) with
      | Some a, Some b, Some c => Some (Vec [a; b; c])
      | _, _, _ => None
      end
  | _ => None
  end.

Definition rot_s (lg : bool) (f : texpr) : option tensor :=        (* 2D only *)
  match dd lg 1 f, dd lg 0 f with
  | Some a, Some b => Some (Vec [a; TOpp b])
  | _, _ => None
  end.

Definition laplace_s (lg : bool) (d : nat) (f : texpr) : option tensor :=
  option_map (fun l => Sc (tsum l)) (sequence (map (fun i => dd2 lg i i f) (seq0 d))).

Definition laplace_v (lg : bool) (d : nat) (F : list texpr) : option tensor :=
  option_map Vec
    (sequence (map (fun Fi => option_map tsum (sequence (map (fun i => dd2 lg i i Fi) (seq0 d)))) F)).

Definition hessian_s (lg : bool) (d : nat) (f : texpr) : option tensor :=
  option_map Mat (sequence (map (fun i => sequence (map (fun j => dd2 lg i j f) (seq0 d))) (seq0 d))).

Definition bracket_s (lg : bool) (f g : texpr) : option tensor :=   (* 2D only *)
  match dd lg 0 f, dd lg 1 g, dd lg 1 f, dd lg 0 g with
  | Some fx, Some gy, Some fy, Some gx => Some (Sc (TSub (TMul fx gy) (TMul fy gx)))
  | _, _, _, _ => None
  end.

Fixpoint zipmul (a b : list texpr) : list texpr :=
  match a, b with x :: r, y :: s => TMul x y :: zipmul r s | _, _ => [] end.

Definition dot_v (a b : list texpr) : tensor := Sc (tsum (zipmul a b)).

Definition inner_m (A B : list (list texpr)) : tensor :=            (* Frobenius *)
  Sc (tsum (zipmul (concat A) (concat B))).

Definition cross_v (d : nat) (a b : list texpr) : option tensor :=
  match d with
  | 2 => Some (Sc (TSub (TMul (comp a 0) (comp b 1)) (TMul (comp a 1) (comp b 0))))
  | 3 => Some (Vec [TSub (TMul (comp a 1) (comp b 2)) (TMul (comp a 2) (comp b 1));
                    TSub (TMul (comp a 2) (comp b 0)) (TMul (comp a 0) (comp b 2));
                    TSub (TMul (comp a 0) (comp b 1)) (TMul (comp a 1) (comp b 0))])
  | _ => None
  end.

Definition outer_v (a b : list texpr) : tensor := Mat (map (fun x => map (fun y => TMul x y) b) a).

Definition convect_v (lg : bool) (d : nat) (F G : list texpr) : option tensor :=
  option_map Vec
    (sequence (map (fun Gi => option_map (fun l => tsum (zipmul F l)) (sequence (map (fun j => dd lg j Gi) (seq0 d)))) G)).

Definition transpose_m (M : list (list texpr)) : tensor :=
  match M with
  | [] => Mat []
  | r0 :: _ => Mat (map (fun j => map (fun row => nth j row (TZ 0)) M) (seq0 (length r0)))
  end.

Definition trace_m (M : list (list texpr)) : tensor :=
  Sc (tsum (map (fun i => nth i (nth i M []) (TZ 0)) (seq0 (length M)))).

(* entry-wise comparison of tensors with the verified checker *)
Fixpoint all2 {A} (f : A -> A -> bool) (a b : list A) : bool :=
  match a, b with
  | [], [] => true
  | x :: r, y :: s => f x y && all2 f r s
  | _, _ => false
  end.

Definition tens_equiv (a b : tensor) : bool :=
  match a, b with
  | Sc x, Sc y => tequiv x y
  | Vec l, Vec m => all2 tequiv l m
  | Mat A, Mat B => all2 (all2 tequiv) A B
  (* the library writes vectors as 1-column or 1-row matrices in places *)
  | Vec l, Mat B | Mat B, Vec l => all2 tequiv l (concat B) && (Nat.eqb (length B) 1 || forallb (fun r => Nat.eqb (length r) 1) B)
  | Sc x, Mat [[y]] | Mat [[y]], Sc x => tequiv x y
  | _, _ => false
  end.
