(* sympy-shaped scalar expression trees (n-ary Add / Mul, Pow with any exponent):
   what the rewriting code of sympde pattern-matches on.  [sx2t] gives their
   meaning as terminal expressions; [t2s] embeds terminal expressions back. *)
From Coq Require Import String ZArith List Bool Arith.
From V Require Import Core.Terminal.
Import ListNotations.

Inductive sx :=
| SNum (p : Z) (q : positive)          (* Integer / Rational *)
| SAt (a : atom)
| SAdd (l : list sx)
| SMul (l : list sx)
| SPow (b e : sx)
| SFn (f : fname) (a : sx).

Section SxInd.
  Variable Pr : sx -> Prop.
  Hypothesis HNum : forall p q, Pr (SNum p q).
  Hypothesis HAt : forall a, Pr (SAt a).
  Hypothesis HAdd : forall l, Forall Pr l -> Pr (SAdd l).
  Hypothesis HMul : forall l, Forall Pr l -> Pr (SMul l).
  Hypothesis HPow : forall b e, Pr b -> Pr e -> Pr (SPow b e).
  Hypothesis HFn : forall f a, Pr a -> Pr (SFn f a).

  Fixpoint sx_ind' (e : sx) : Pr e :=
    match e with
    | SNum p q => HNum p q
    | SAt a => HAt a
    | SAdd l => HAdd l ((fix go (l : list sx) : Forall Pr l :=
                           match l with [] => Forall_nil _ | x :: r => Forall_cons x (sx_ind' x) (go r) end) l)
    | SMul l => HMul l ((fix go (l : list sx) : Forall Pr l :=
                           match l with [] => Forall_nil _ | x :: r => Forall_cons x (sx_ind' x) (go r) end) l)
    | SPow b x => HPow b x (sx_ind' b) (sx_ind' x)
    | SFn f a => HFn f a (sx_ind' a)
    end.
End SxInd.

Definition sZ (z : Z) : sx := SNum z 1.

Fixpoint tsum (l : list texpr) : texpr :=
  match l with [] => TZ 0 | [x] => x | x :: r => TAdd x (tsum r) end.
Fixpoint tprod (l : list texpr) : texpr :=
  match l with [] => TZ 1 | [x] => x | x :: r => TMul x (tprod r) end.

Fixpoint sx2t (e : sx) : texpr :=
  match e with
  | SNum p q => if Pos.eqb q 1 then TZ p else TQ p q
  | SAt a => TAt a
  | SAdd l => tsum (map sx2t l)
  | SMul l => tprod (map sx2t l)
  | SPow b x =>
      match x with
      | SNum (Zpos n) 1%positive => TPowN (sx2t b) (Npos n)
      | SNum Z0 1%positive => TPowN (sx2t b) 0
      | SNum (Zneg n) 1%positive => TInv (TPowN (sx2t b) (Npos n))
      | _ => TPowG (sx2t b) (sx2t x)
      end
  | SFn f a => TFn f (sx2t a)
  end.

Fixpoint t2s (t : texpr) : sx :=
  match t with
  | TZ z => SNum z 1
  | TQ p q => SNum p q
  | TAt a => SAt a
  | TAdd a b => SAdd [t2s a; t2s b]
  | TSub a b => SAdd [t2s a; SMul [sZ (-1); t2s b]]
  | TMul a b => SMul [t2s a; t2s b]
  | TDiv a b => SMul [t2s a; SPow (t2s b) (sZ (-1))]
  | TOpp a => SMul [sZ (-1); t2s a]
  | TInv a => SPow (t2s a) (sZ (-1))
  | TPowN a n => SPow (t2s a) (SNum (Z.of_N n) 1)
  | TFn f a => SFn f (t2s a)
  | TPowG b e => SPow (t2s b) (t2s e)
  end.

(* sympy predicates used by the rewriting code *)
Definition is_coeff (e : sx) : bool :=      (* isinstance(a, _coeffs_registery) *)
  match e with SNum _ _ => true | SAt (AConst _) => true | _ => false end.

Fixpoint is_number (e : sx) : bool :=       (* expr.is_number (Constant.is_number = True) *)
  match e with
  | SNum _ _ => true
  | SAt (AConst _) => true
  | SAt _ => false
  | SAdd l | SMul l => forallb is_number l
  | SPow b x => is_number b && is_number x
  | SFn _ a => is_number a
  end.

(* has(expr, (VectorFunction, ScalarFunction, DifferentialOperator)) *)
Fixpoint has_field (e : sx) : bool :=
  match e with
  | SNum _ _ => false
  | SAt (AFld _ _ _ _ _) => true
  | SAt (AMap _ _ al) => negb (all_zero al)
  | SAt _ => false
  | SAdd l | SMul l => existsb has_field l
  | SPow b x => has_field b || has_field x
  | SFn _ a => has_field a
  end.

(* sympy's automatic 0 / 1 elimination when it builds an Add or a Mul (the only part of its
   canonicalisation the models need: it decides whether log(b) of a field survives) *)
Definition is_zero (x : sx) : bool := match x with SNum Z0 _ => true | _ => false end.
Definition is_one (x : sx) : bool := match x with SNum (Zpos xH) xH => true | _ => false end.
Definition smul (l : list sx) : sx :=
  if existsb is_zero l then sZ 0 else
  match filter (fun x => negb (is_one x)) l with
  | [] => sZ 1
  | [x] => x
  | l' => SMul l'
  end.
Definition sadd (l : list sx) : sx :=
  match filter (fun x => negb (is_zero x)) l with
  | [] => sZ 0
  | [x] => x
  | l' => SAdd l'
  end.

(* bottom-up 0/1 elimination (what sympy does while it builds the result of diff) *)
Fixpoint ssimp (e : sx) : sx :=
  match e with
  | SAdd l => sadd (map ssimp l)
  | SMul l => smul (map ssimp l)
  | SPow b x => SPow (ssimp b) x
  | SFn f a => SFn f (ssimp a)
  | _ => e
  end.

Definition sx_eqb (a b : sx) : bool := texpr_eqb (sx2t a) (sx2t b).
