(* The semantic domain packaged as one record: a field with two commuting families
   of derivations (physical / logical), elementary functions with their chain rules,
   and an environment for the symbols.  "For every choice of smooth functions and
   every point" is read as "for every [dfield]" (DESIGN.md section 4.2).
   Downstream files take [Variable S : dfield] inside a Section: nothing is an Axiom. *)
From Coq Require Import String ZArith List Bool Arith Field_theory.
From V Require Import Core.FieldEq Core.Terminal Core.TerminalP.
Import ListNotations.

Record dfield := {
  F : Type;
  f0 : F; f1 : F;
  fadd : F -> F -> F; fmul : F -> F -> F; fsub : F -> F -> F;
  fopp : F -> F; fdiv : F -> F -> F; finv : F -> F;
  Fth : field_theory f0 f1 fadd fmul fsub fopp fdiv finv (@eq F);
  cst : string -> F;
  crd : bool -> nat -> F;
  fld : string -> nat -> side -> F;
  mp : string -> nat -> F;
  nrm : side -> nat -> F;
  D : bool -> nat -> F -> F;
  E : fname -> F -> F;
  P : F -> F -> F;
  D_add : forall lg i a b, D lg i (fadd a b) = fadd (D lg i a) (D lg i b);
  D_mul : forall lg i a b, D lg i (fmul a b) = fadd (fmul (D lg i a) b) (fmul a (D lg i b));
  D_phi : forall lg i z, D lg i (phi F f0 f1 fadd fmul fopp z) = f0;
  D_cst : forall lg i n, D lg i (cst n) = f0;
  D_crd : forall lg i j, D lg i (crd lg j) = if Nat.eqb i j && Nat.ltb j 3 then f1 else f0;
  D_comm : forall lg i j a, D lg i (D lg j a) = D lg j (D lg i a);
  (* elementary functions are partial: [Edom f a] = the composition exists *)
  Edom : fname -> F -> Prop;
  Pdom : F -> F -> Prop;
  D_sin : forall lg i a, Edom Fsin a -> D lg i (E Fsin a) = fmul (E Fcos a) (D lg i a);
  D_cos : forall lg i a, Edom Fcos a -> D lg i (E Fcos a) = fopp (fmul (E Fsin a) (D lg i a));
  D_tan : forall lg i a, Edom Ftan a -> D lg i (E Ftan a) = fmul (fadd f1 (fmul (E Ftan a) (E Ftan a))) (D lg i a);
  D_exp : forall lg i a, Edom Fexp a -> D lg i (E Fexp a) = fmul (E Fexp a) (D lg i a);
  D_log : forall lg i a, Edom Flog a -> a <> f0 -> D lg i (E Flog a) = fdiv (D lg i a) a;
  D_sqrt : forall lg i a, Edom Fsqrt a -> fmul (phi F f0 f1 fadd fmul fopp 2) (E Fsqrt a) <> f0 ->
           D lg i (E Fsqrt a) = fdiv (D lg i a) (fmul (phi F f0 f1 fadd fmul fopp 2) (E Fsqrt a));
  D_pow : forall lg i b e, Pdom b e -> b <> f0 ->
          D lg i (P b e) = fmul (P b e) (fadd (fmul (D lg i e) (E Flog b)) (fdiv (fmul e (D lg i b)) b));
  Edom_sin_cos : forall a, Edom Fsin a <-> Edom Fcos a;
  Pdom_log : forall b e, Pdom b e -> Edom Flog b;
  (* the general power agrees with the iterated product on integer literals *)
  P_pos : forall b p, P b (phi F f0 f1 fadd fmul fopp (Zpos p)) = fpow F f1 fmul b (Npos p);
  P_zero : forall b, P b f0 = f1;
  P_neg : forall b p, P b (phi F f0 f1 fadd fmul fopp (Zneg p)) = finv (fpow F f1 fmul b (Npos p))
}.

Section Wrap.
  Variable S : dfield.

  Definition ev (t : texpr) : F S :=
    teval (F S) (f0 S) (f1 S) (fadd S) (fmul S) (fsub S) (fopp S) (fdiv S) (finv S)
          (cst S) (crd S) (fld S) (mp S) (nrm S) (D S) (E S) (P S) t.

  Definition dfd (t : texpr) : Prop :=
    defined (F S) (f0 S) (f1 S) (fadd S) (fmul S) (fsub S) (fopp S) (fdiv S) (finv S)
            (cst S) (crd S) (fld S) (mp S) (nrm S) (D S) (E S) (P S) (Edom S) (Pdom S) t.

  Definition dok (a b : texpr) : Prop :=
    denoms_ok (F S) (f0 S) (f1 S) (fadd S) (fmul S) (fsub S) (fopp S) (fdiv S) (finv S)
              (cst S) (crd S) (fld S) (mp S) (nrm S) (D S) (E S) (P S) a b.

  Definition num (z : Z) : F S := phi (F S) (f0 S) (f1 S) (fadd S) (fmul S) (fopp S) z.

  Theorem ev_tequiv a b : tequiv a b = true -> dok a b -> ev a = ev b.
  Proof. apply tequiv_sound. apply Fth. Qed.

  Theorem ev_tD lg i t t' : tD lg i t = Some t' -> dfd t -> ev t' = D S lg i (ev t).
  Proof.
    apply tD_sound; first [apply Fth|apply D_add|apply D_mul|apply D_phi|apply D_cst|apply D_crd
      |apply D_comm|apply D_sin|apply D_cos|apply D_tan|apply D_exp|apply D_log|apply D_sqrt|apply D_pow].
  Qed.

  Theorem dfd_tD lg i t t' : tD lg i t = Some t' -> dfd t -> dfd t'.
  Proof. apply tD_defined; [apply Fth|apply Edom_sin_cos|apply Pdom_log]. Qed.

  Lemma Dz lg i : D S lg i (f0 S) = f0 S.
  Proof. change (f0 S) with (num 0). apply D_phi. Qed.

  Lemma Dopp lg i a : D S lg i (fopp S a) = fopp S (D S lg i a).
  Proof. eapply D_opp; [apply Fth|apply D_add|apply D_phi]. Qed.

  Lemma Dsub lg i a b : D S lg i (fsub S a b) = fsub S (D S lg i a) (D S lg i b).
  Proof. eapply D_sub; [apply Fth|apply D_add|apply D_phi]. Qed.

  Lemma Ddiv lg i a b : b <> f0 S ->
    D S lg i (fdiv S a b) = fdiv S (fsub S (fmul S (D S lg i a) b) (fmul S a (D S lg i b))) (fmul S b b).
  Proof. eapply D_div; [apply Fth|apply D_mul]. Qed.

  Lemma mul_nz a b : a <> f0 S -> b <> f0 S -> fmul S a b <> f0 S.
  Proof. eapply mul_nonzero. apply Fth. Qed.
End Wrap.

Section Wrap2.
  Variable S : dfield.
  Notation "0" := (f0 S). Notation "1" := (f1 S).
  Infix "+" := (fadd S). Infix "*" := (fmul S). Infix "-" := (fsub S). Infix "/" := (fdiv S).

  Definition pw (x : F S) (n : N) : F S := fpow (F S) (f1 S) (fmul S) x n.

  Lemma Dpow_pos lg i a p :
    D S lg i (pw a (Npos p)) = num S (Zpos p) * pw a (Pos.pred_N p) * D S lg i a.
  Proof. apply (D_pow_pos (F S) _ _ _ _ _ _ _ _ (Fth S) (D S)); first [apply D_add|apply D_mul|apply D_phi]. Qed.

  Lemma pw_pred a p : a * pw a (Pos.pred_N p) = pw a (Npos p).
  Proof. apply (pow_pred_N (F S) _ _ _ _ _ _ _ _ (Fth S)). Qed.

  Lemma Dinv lg i a : a <> 0 -> D S lg i (finv S a) = fopp S (D S lg i a / (a * a)).
  Proof. apply (D_inv (F S) _ _ _ _ _ _ _ _ (Fth S) (D S)); first [apply D_add|apply D_mul|apply D_phi]. Qed.
End Wrap2.
