(* Canonical finite sets as de-duplicated lists sorted by a string key:
   the model of Python's  sorted(set(args), key=str)  and the uniqueness
   theorem behind every "does not depend on the order of the arguments"
   statement (C12, C13, C14). *)
From Coq Require Import String List Bool Arith Permutation Sorted.
From V Require Import Core.StrOrd.
Import ListNotations.

Section Canon.
  Variable A : Type.
  Variable eqb : A -> A -> bool.   (* what Python's == / hash see *)
  Variable key : A -> string.      (* what str() prints *)

  Definition mem (a : A) (l : list A) : bool := existsb (eqb a) l.

  (* set(): keep the first representative of each == class *)
  Fixpoint dedup (l : list A) : list A :=
    match l with
    | [] => []
    | a :: r => a :: filter (fun b => negb (eqb a b)) (dedup r)
    end.

  (* sorted(..., key=str): stable insertion sort *)
  Fixpoint insert (a : A) (l : list A) : list A :=
    match l with
    | [] => [a]
    | b :: r => if String.leb (key a) (key b) then a :: l else b :: insert a r
    end.
  Definition sort (l : list A) : list A := fold_right insert [] l.

  Definition canon (l : list A) : list A := sort (dedup l).

  (* well-formedness of a family: == is Leibniz equality and str is injective *)
  Definition wf (l : list A) : Prop :=
    (forall a b, In a l -> In b l -> (eqb a b = true <-> a = b)) /\
    (forall a b, In a l -> In b l -> key a = key b -> a = b).

  Definition klt (a b : A) : Prop := String.ltb (key a) (key b) = true.
  Definition kle (a b : A) : Prop := String.leb (key a) (key b) = true.

  (* ---------------------------------------------------------------- dedup *)
  Lemma dedup_incl l : forall a, In a (dedup l) -> In a l.
  Proof.
    induction l as [|x l IH]; simpl; intros a H; [exact H|].
    destruct H as [H|H]; [now left|]. right. apply IH.
    apply filter_In in H. tauto.
  Qed.

  Lemma dedup_In l : wf l -> forall a, In a l -> In a (dedup l).
  Proof.
    induction l as [|x l IH]; simpl; intros Hwf a H; [exact H|].
    assert (Hwf' : wf l).
    { destruct Hwf as [H1 H2]. split; intros; [apply H1|apply H2]; simpl; auto. }
    destruct Hwf as [H1 _].
    destruct (eqb x a) eqn:E.
    - left. apply (H1 x a); simpl; auto.
    - right. apply filter_In. split.
      + apply IH; auto. destruct H as [H|H]; auto. subst a.
        assert (eqb x x = true) by (apply (H1 x x); simpl; auto). congruence.
      + now rewrite E.
  Qed.

  Lemma dedup_NoDup l : wf l -> NoDup (dedup l).
  Proof.
    induction l as [|x l IH]; simpl; intros Hwf; [constructor|].
    assert (Hwf' : wf l).
    { destruct Hwf as [H1 H2]. split; intros; [apply H1|apply H2]; simpl; auto. }
    constructor.
    - intros H. apply filter_In in H. destruct H as [Hin Hne].
      destruct Hwf as [H1 _].
      assert (eqb x x = true) by (apply (H1 x x); simpl; auto).
      rewrite H in Hne. discriminate.
    - apply NoDup_filter. auto.
  Qed.

  (* ----------------------------------------------------------------- sort *)
  Lemma insert_perm a l : Permutation (insert a l) (a :: l).
  Proof.
    induction l as [|b r IH]; simpl; [reflexivity|].
    destruct (String.leb (key a) (key b)); [reflexivity|].
    rewrite IH. apply perm_swap.
  Qed.

  Lemma sort_perm l : Permutation (sort l) l.
  Proof.
    induction l as [|a l IH]; simpl; [reflexivity|].
    rewrite insert_perm. now constructor.
  Qed.

  Lemma sort_In l a : In a (sort l) <-> In a l.
  Proof. split; apply Permutation_in; [|symmetry]; apply sort_perm. Qed.

  Lemma insert_sorted a l :
    StronglySorted kle l -> StronglySorted kle (insert a l).
  Proof.
    induction 1 as [|b r Hs IH Hall]; simpl.
    - constructor; constructor.
    - destruct (String.leb (key a) (key b)) eqn:E.
      + constructor; [constructor; auto|].
        constructor; [exact E|].
        rewrite Forall_forall in *. intros c Hc. unfold kle in *.
        eapply str_leb_trans; [exact E|]. now apply Hall.
      + constructor; [exact IH|].
        rewrite Forall_forall in *. intros c Hc.
        apply (Permutation_in _ (insert_perm a r)) in Hc. destruct Hc as [<-|Hc].
        * unfold kle. now apply str_leb_false_lt.
        * now apply Hall.
  Qed.

  Lemma sort_sorted l : StronglySorted kle (sort l).
  Proof.
    induction l as [|a l IH]; simpl; [constructor|]. now apply insert_sorted.
  Qed.

  (* ----------------------------------------------------- uniqueness *)
  Lemma sorted_unique (l1 : list A) : forall l2,
    (forall a b, In a (l1 ++ l2) -> In b (l1 ++ l2) -> key a = key b -> a = b) ->
    NoDup l1 -> NoDup l2 ->
    StronglySorted kle l1 -> StronglySorted kle l2 ->
    (forall a, In a l1 <-> In a l2) -> l1 = l2.
  Proof.
    induction l1 as [|x1 r1 IH]; intros [|x2 r2] Hinj N1 N2 S1 S2 Heq.
    - reflexivity.
    - exfalso. apply (proj2 (Heq x2)). now left.
    - exfalso. apply (proj1 (Heq x1)). now left.
    - inversion N1 as [|? ? Hn1 N1']; inversion N2 as [|? ? Hn2 N2']; subst.
      inversion S1 as [|? ? S1' A1]; inversion S2 as [|? ? S2' A2]; subst.
      rewrite Forall_forall in A1, A2.
      assert (Hx : x1 = x2).
      { destruct (proj1 (Heq x1) (or_introl eq_refl)) as [E|I1]; [now symmetry|].
        destruct (proj2 (Heq x2) (or_introl eq_refl)) as [E|I2]; [exact E|].
        apply Hinj.
        - apply in_or_app. left. now left.
        - apply in_or_app. right. now left.
        - apply String.leb_antisym; [apply (A1 _ I2)|apply (A2 _ I1)]. }
      subst x2. f_equal. apply IH; auto.
      + intros a b Ha Hb. apply Hinj; apply in_app_or in Ha; apply in_app_or in Hb;
          apply in_or_app; simpl; tauto.
      + intros a. split; intros Ha.
        * destruct (proj1 (Heq a) (or_intror Ha)) as [E|I]; [subst; contradiction|exact I].
        * destruct (proj2 (Heq a) (or_intror Ha)) as [E|I]; [subst; contradiction|exact I].
  Qed.

  Lemma wf_incl l l' : (forall a, In a l' -> In a l) -> wf l -> wf l'.
  Proof. intros Hi [H1 H2]. split; intros; [apply H1|apply H2]; auto. Qed.

  Lemma NoDup_perm_sort l : NoDup l -> NoDup (sort l).
  Proof. intros H. eapply Permutation_NoDup; [symmetry; apply sort_perm|exact H]. Qed.

  Lemma canon_In l : wf l -> forall a, In a (canon l) <-> In a l.
  Proof.
    intros Hwf a. unfold canon. rewrite sort_In. split; [apply dedup_incl|now apply dedup_In].
  Qed.

  Lemma canon_NoDup l : wf l -> NoDup (canon l).
  Proof. intros H. apply NoDup_perm_sort. now apply dedup_NoDup. Qed.

  Lemma canon_sorted l : StronglySorted kle (canon l).
  Proof. apply sort_sorted. Qed.

  (* The canonical list is a function of the SET of members only. *)
  Theorem canon_set_ext l1 l2 :
    wf (l1 ++ l2) -> (forall a, In a l1 <-> In a l2) -> canon l1 = canon l2.
  Proof.
    intros Hwf Heq.
    assert (W1 : wf l1) by (eapply wf_incl; [|exact Hwf]; intros; apply in_or_app; auto).
    assert (W2 : wf l2) by (eapply wf_incl; [|exact Hwf]; intros; apply in_or_app; auto).
    apply sorted_unique.
    - intros a b Ha Hb. apply (proj2 Hwf);
        [apply in_app_or in Ha|apply in_app_or in Hb]; apply in_or_app;
        rewrite !canon_In in *; auto.
    - now apply canon_NoDup.
    - now apply canon_NoDup.
    - apply canon_sorted.
    - apply canon_sorted.
    - intros a. rewrite !canon_In; auto.
  Qed.

  Corollary canon_perm l1 l2 : wf l1 -> Permutation l1 l2 -> canon l1 = canon l2.
  Proof.
    intros Hwf HP. apply canon_set_ext.
    - eapply wf_incl; [|exact Hwf]. intros a Ha. apply in_app_or in Ha.
      destruct Ha as [Ha|Ha]; [exact Ha|]. eapply Permutation_in; [symmetry; exact HP|exact Ha].
    - intros a. split; apply Permutation_in; [exact HP|symmetry; exact HP].
  Qed.

  Corollary canon_idem l : wf l -> canon (canon l) = canon l.
  Proof.
    intros Hwf. apply canon_set_ext.
    - eapply wf_incl; [|exact Hwf]. intros a Ha. apply in_app_or in Ha.
      destruct Ha as [Ha|Ha]; [exact (proj1 (canon_In l Hwf a) Ha)|exact Ha].
    - intros a. exact (canon_In l Hwf a).
  Qed.

  Corollary canon_dup l : wf l -> canon (l ++ l) = canon l.
  Proof.
    intros Hwf. apply canon_set_ext.
    - eapply wf_incl; [|exact Hwf]. intros a Ha. repeat (apply in_app_or in Ha; destruct Ha as [Ha|Ha]; auto).
    - intros a. rewrite in_app_iff. tauto.
  Qed.
End Canon.

Arguments mem {A}. Arguments dedup {A}. Arguments insert {A}. Arguments sort {A}.
Arguments canon {A}. Arguments wf {A}. Arguments kle {A}.
